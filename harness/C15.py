"""C15 Batch sub-seeds are distinct and depend only on (seed, index)."""
import numpy as np

from symx import core
from symx.core import And, Or, Not, Implies, Sum, If, count_true
from symx.explore import H
from symx.npfacade import patched, NPFacade, _Sub

import elfi.utils as eu

PROPERTY = 'C15'
EXPLANATION = ('elfi.utils.get_sub_seed is executed with numpy.random.RandomState replaced by a generator whose draw '
               'stream s_0..s_{L-1} consists of symbolic integers in [0, high); high itself and the requested indices are '
               'symbolic, so collisions in the stream are forced. The specification (the (i+1)-th distinct value of the '
               'stream) is written over the stream directly.')
ASSUMPTIONS = [
    'RandomState(seed).randint(high, size=n) returns the next n values of a stream that is a function of seed only, '
    'each in [0, high) (numpy contract); two generators built from the same seed yield the same stream',
    'Python set semantics through __eq__ of symbolic integers (constant hash)',
]
OUTSIDE = ['streams needing more than L draws (Cut)', 'high > 4 other than 2**31 and 2**32 (the code does not depend on the magnitude of high '
           'other than through comparisons, but this is not proved)', 'the Mersenne twister itself']


class Stream:
    """Stand-in for np.random.RandomState: replays the symbolic stream of the harness."""
    values = None   # list of stream values (set per path)
    high = None
    created = 0

    def __init__(self, seed=None):
        self.pos = 0
        self.seed = seed
        Stream.created += 1
        self.serial = Stream.created

    def randint(self, high, size=None, dtype=int):
        ctx = core.cur()
        n = size.__index__() if isinstance(size, core.SymInt) else int(size)
        if n < 0:
            raise ValueError('negative dimensions are not allowed')
        if self.pos + n > len(Stream.values):
            raise core.Cut('stream longer than L=%d needed' % len(Stream.values))
        if not bool(self.seed == SEED):
            # a generator seeded with anything but the master seed yields an unrelated stream
            vals = [ctx.int('other%d_%d' % (self.serial, self.pos + j), 0, None) for j in range(n)]
            for v in vals:
                ctx.assume(v < high)
        else:
            vals = Stream.values[self.pos:self.pos + n]
        self.pos += n
        if ctx.symbolic:
            a = np.empty(n, dtype=object)
            for i, v in enumerate(vals):
                a[i] = v
            return a
        return np.array(vals, dtype='uint32')


def env(ctx):
    fac = NPFacade(random=_Sub(np.random, {'RandomState': Stream}))
    return patched([(eu, {'np': fac})])


def spec_value(stream, idx, result):
    """result is the (idx+1)-th distinct value of the stream (within the L values available)."""
    alts = []
    for k, s in enumerate(stream):
        new_k = And(*[Not(s == stream[j]) for j in range(k)])
        rank = 1
        for m in range(k):
            rank = rank + If(And(*[Not(stream[m] == stream[j]) for j in range(m)]), 1, 0)
        alts.append(And(new_k, rank == idx + 1, result == s))
    return Or(*alts)


SEED = 1234


def call(idx, high, cache):
    """-> ('val', v) | ('raise', excname) | ('loop', None) when the draw loop ran out of the bounded stream"""
    try:
        return ('val', eu.get_sub_seed(SEED, idx, high=high, cache=cache))
    except (ValueError, TypeError) as e:
        return ('raise', type(e).__name__)
    except core.Cut:
        return ('loop', None)


def h_history(ctx, L, hist, high_max=4, fixed_high=None):
    high = ctx.int('high', 1, high_max) if fixed_high is None else fixed_high
    stream = [ctx.int('s%d' % k, 0, None) for k in range(L)]
    for s in stream:
        ctx.assume(s < high)
    Stream.values = stream
    Stream.created = 0
    idxs = [ctx.int('i%d' % k, -1, None) for k in range(hist)]
    for i in idxs:
        ctx.assume(i <= high)
    cache = {'random_state': None, 'seen': set()} if False else {}
    res_c, res_n = [], []
    with env(ctx):
        cache = {}
        for i in idxs:
            # the loaders create the cache lazily as an empty dict and pass it on every call
            for r, c in ((res_c, cache), (res_n, None)):
                r.append(call(i, high, c))
                if r[-1][0] == 'loop':
                    # running out of the bounded stream is outside the claim only for a servable index; an
                    # unservable index must be rejected before the draw loop (else the function never returns)
                    ctx.claim('unservable_index_rejected_not_looped', And(i >= 0, i < high))
                    raise core.Cut('stream exhausted')
    for k, i in enumerate(idxs):
        rc, rn = res_c[k], res_n[k]
        servable = And(i >= 0, i < high)
        ctx.claim('served_iff_index_in_range_%d' % k, servable if rc[0] == 'val' else Not(servable))
        ctx.claim('cache_and_nocache_agree_on_rejection_%d' % k, rc[0] == rn[0])
        if rc[0] == 'val' and rn[0] == 'val':
            ctx.output('r%d' % k, rc[1])
            ctx.claim('cached_equals_uncached_%d' % k, rc[1] == rn[1])
            ctx.claim('in_range_%d' % k, And(rc[1] >= 0, rc[1] < high))
            ctx.claim('is_(i+1)th_distinct_stream_value_%d' % k, spec_value(stream, i, rc[1]))
    for a in range(hist):
        for b in range(a + 1, hist):
            if res_c[a][0] == 'val' and res_c[b][0] == 'val':
                ctx.claim('distinct_indices_distinct_seeds_%d_%d' % (a, b),
                          Implies(Not(idxs[a] == idxs[b]), Not(res_c[a][1] == res_c[b][1])))
                ctx.claim('same_index_same_seed_%d_%d' % (a, b),
                          Implies(idxs[a] == idxs[b], res_c[a][1] == res_c[b][1]))
    # cache consistency
    if cache:
        seen = cache['seen']
        rs = cache['random_state']
        consumed = stream[:rs.pos]
        ctx.claim('cache_seen_is_set_of_consumed_values',
                  And(*[Or(*[v == c for c in consumed]) for v in seen]) and
                  And(*[Or(*[c == v for v in seen]) for c in consumed]))


def h_default_high(ctx, L, hist):
    """The default high=2**31 used by every caller: stream values arbitrary in [0, 2**31)."""
    return h_history(ctx, L, hist, fixed_high=2 ** 31)


HARNESSES = [
    H('history1_L4', h_history, dict(L=4, hist=1), bounds='stream L=4, high in [1,4] symbolic, 1 call, index in [-1,high]'),
    H('history2_L5', h_history, dict(L=5, hist=2), bounds='L=5, high in [1,4], 2 calls sharing one cache'),
    H('history3_L6', h_history, dict(L=6, hist=3, high_max=3), bounds='L=6, high in [1,3], 3 calls sharing one cache'),
    H('history4_L6', h_history, dict(L=6, hist=4, high_max=2), bounds='L=6, high in [1,2], 4 calls sharing one cache',
      tiers=('thorough',)),
    H('history3_L7', h_history, dict(L=7, hist=3, high_max=3), bounds='L=7, high in [1,3], 3 calls', tiers=('thorough',)),
    H('history2_L6_high4', h_history, dict(L=6, hist=2, high_max=4), bounds='L=6, high in [1,4], 2 calls', tiers=('thorough',)),
    H('default_high_L4_h2', h_default_high, dict(L=4, hist=2), bounds='high=2**31, L=4, 2 calls, indices in [-1, 2**31]'),
    H('uint32_range_high_L4_h2', h_history, dict(L=4, hist=2, fixed_high=2 ** 32),
      bounds='high=2**32 (the largest range the uint32 draw accepts), stream values arbitrary in [0, 2**32), L=4, 2 calls'),
    H('default_high_L6_h3', h_default_high, dict(L=6, hist=3), bounds='high=2**31, L=6, 3 calls', tiers=('thorough',)),
]

MANIFEST = {
    'level_text': 'Bounded symbolic execution of the real get_sub_seed over a symbolic draw stream, symbolic range and a '
                  'symbolic index history sharing one cache: equality with the uncached result, with the stream-level '
                  'specification, distinctness, range and rejection are SMT validity queries on every path of the '
                  'exhaustively explored decision tree.',
    'level_note': 'Stream length L<=6 (quick) / 8 (thorough), high<=4 or the default 2**31, history<=3/4 calls; paths that '
                  'need a longer stream are cut and counted. numpy RandomState is replaced by the stream stub (contract: '
                  'values in [0,high), determined by the seed). z3 trusted.',
}
