"""C08 The joint model prior equals the product of the conditional prior densities."""
import itertools
from fractions import Fraction

import numpy as np

import elfi
import elfi.loader
import elfi.model.extensions as ext
import elfi.model.augmenter as aug
import elfi.methods.utils as mu

from symx import core
from symx.core import And, Or, Not, Implies, Sum, If, close, INF, SymX
from symx.explore import H
from symx.npfacade import patched, std_bindings, NPFacade, _Sub

PROPERTY = 'C08'
EXPLANATION = ('elfi.model.extensions.ModelPrior (constructor, pdf, logpdf, rvs, gradient_logpdf), augmenter.add_pdf_nodes and '
               'numgrad run on real ElfiModels whose Prior nodes carry stand-in distributions: density / log-density / support '
               'membership of parameter k are uninterpreted functions PDF_k, log(PDF_k), INSUP_k of (x_k, parent values), so the '
               'verdict holds for every scipy-like distribution; evaluation points are symbolic.')
ASSUMPTIONS = [
    'a distribution\'s pdf is > 0 and its logpdf finite exactly on its support, 0 / -inf outside (INSUP_k decides, uninterpreted)',
    'a requested parameter subset is closed under parameter-valued distribution arguments',
    'rvs of a distribution returns values inside its support',
    'exact reals; gradient claim is "equals the central difference quotient of the object\'s own logpdf with the step given"',
]
OUTSIDE = ['that the difference quotient approximates the analytic derivative', 'scipy\'s own densities',
           'vector-valued priors (the code itself says unsupported)', 'more than 3 parameters / 2 evaluation rows']

# dependency shapes: name -> list of (param, parents)
SHAPES = {
    'one': [('a', [])],
    'indep2': [('a', []), ('b', [])],
    'chain2': [('a', []), ('b', ['a'])],
    'chain3': [('a', []), ('b', ['a']), ('c', ['b'])],
    'fork3': [('a', []), ('b', ['a']), ('c', ['a'])],
    'collider3': [('a', []), ('b', []), ('c', ['a', 'b'])],
    'const_arg': [('a', []), ('b', ['#2.5', 'a'])],
    'collider_rev': [('a', []), ('b', []), ('c', ['b', 'a'])],
}


def density(ctx, name, args):
    """Conditional density of parameter `name` on its support: the uninterpreted PDF_name(x, parents) > 0."""
    v = ctx.apply_uf('PDF_%s' % name, args)
    if ctx.symbolic:
        ctx._fact(v.t > 0)
        return v
    return abs(v) if v != 0 else 0.01


def log_density(ctx, name, args):
    """The distribution's logpdf is the logarithm of its own pdf (a scipy-like distribution is consistent)."""
    return ctx.uf_log(density(ctx, name, args))


class Env:
    def __init__(self, ctx, shape):
        self.ctx = ctx
        self.shape = SHAPES[shape]
        self.rvs_log = {}
        self.model = self._build()

    def _dist(self, name):
        env = self
        ctx = self.ctx

        def rows(x, params):
            x = np.atleast_1d(np.asarray(x, dtype=object) if ctx.symbolic else np.asarray(x, dtype=float))
            n = len(x)
            cols = []
            for p in params:
                p = np.asarray(p, dtype=object) if ctx.symbolic else np.asarray(p, dtype=float)
                cols.append(np.broadcast_to(p, (n,)) if p.ndim <= 1 else p.reshape(n))
            return x, [[c[i] for c in cols] for i in range(n)]

        class D:
            @staticmethod
            def _insup(xi, pi):
                return bool(ctx.apply_uf('INSUP_%s' % name, [xi] + pi, sort='bool'))

            @staticmethod
            def pdf(x, *params):
                x, prow = rows(x, params)
                out = np.empty(len(x), dtype=object if ctx.symbolic else float)
                for i in range(len(x)):
                    if D._insup(x[i], prow[i]):
                        out[i] = density(ctx, name, [x[i]] + prow[i])
                    else:
                        out[i] = 0.0
                return out

            @staticmethod
            def logpdf(x, *params):
                x, prow = rows(x, params)
                out = np.empty(len(x), dtype=object if ctx.symbolic else float)
                for i in range(len(x)):
                    if D._insup(x[i], prow[i]):
                        out[i] = log_density(ctx, name, [x[i]] + prow[i])
                    else:
                        out[i] = -INF
                return out

            @staticmethod
            def rvs(*params, size=None, random_state=None):
                n = size[0]
                vals = [ctx.real('rv_%s_%d_%d' % (name, len(env.rvs_log.setdefault(name, [])), i)) for i in range(n)]
                env.rvs_log[name].append((params, vals, random_state))
                return ctx.array(vals)
        D.__name__ = 'D_' + name
        return D

    def _build(self):
        m = elfi.ElfiModel()
        nodes = {}
        for name, parents in self.shape:
            args = [float(p[1:]) if p.startswith('#') else nodes[p] for p in parents]
            nodes[name] = elfi.Prior(self._dist(name), *args, model=m, name=name)
        return m

    def env(self):
        b = std_bindings([ext, mu], shadow_builtins=True)
        return patched(b)

    def parents_of(self, name):
        return dict(self.shape)[name]


def ref_terms(ctx, E, names, point, log):
    """Per requested parameter: (in_support, value) of the conditional density at the point (dict name->value)."""
    out = []
    for nme in names:
        args = [float(p[1:]) if p.startswith('#') else point[p] for p in E.parents_of(nme)]
        insup = ctx.apply_uf('INSUP_%s' % nme, [point[nme]] + args, sort='bool')
        v = (log_density if log else density)(ctx, nme, [point[nme]] + args)
        out.append((insup, v))
    return out


def check_value(ctx, tag, got, terms, log):
    """got == product / sum of the terms, and zero / -inf exactly when some term is outside its support."""
    all_in = And(*[t[0] for t in terms])
    if log:
        degenerate = core._is_special(got) or (not core.is_sym(got) and got == -INF)
        special_ok = degenerate and got == -INF
    else:
        z = (got == 0)          # folds to True for the identically-zero product 0*PDF*...
        degenerate = z is True or (not core.is_sym(z) and bool(z))
        special_ok = degenerate
    if degenerate:
        ctx.claim(tag + '_degenerate_iff_some_factor_outside_support', And(special_ok, Not(all_in)))
        return
    if log:
        ref = Sum([t[1] for t in terms])
    else:
        ref = 1
        for t in terms:
            ref = ref * t[1]
    if ctx.symbolic and not log:
        # a symbolic product can still be zero-valued only if a factor is (PDF>0 facts): checked by the solver
        ctx.claim(tag + '_positive', got > 0)
    ctx.claim(tag + '_value', And(all_in, close(got, ref, 1e-7)))


def h_pdf(ctx, shape, order_idx, subset, xform, tail=False):
    """order_idx: index of the permutation of the requested names; subset: None or tuple of requested names;
    xform: 'scalar' | '1d' | '2d'."""
    E = Env(ctx, shape)
    allnames = [n for n, _ in E.shape]
    req = list(subset) if subset else allnames
    perms = list(itertools.permutations(req))
    names = list(perms[order_idx % len(perms)])
    dim = len(names)
    nrows = 2 if xform == '2d' or (xform == '1d' and dim == 1) else 1
    if xform == '1d_single':
        xform = '1d'
    pts = [{n: ctx.real('x%d_%s' % (i, n)) for n in names} for i in range(nrows)]
    if xform == 'scalar':
        assert dim == 1
        x = pts[0][names[0]]
    elif xform == '1d':
        x = ctx.array([p[names[0]] for p in pts]) if dim == 1 else ctx.array([pts[0][n] for n in names])
    else:
        x = ctx.array([[p[n] for n in names] for p in pts])
    with E.env():
        mp = ext.ModelPrior(E.model, None if (subset is None and order_idx == 0) else names)
        p = mp.pdf(x)
        lp = mp.logpdf(x)
    ctx.claim('parameter_names_as_requested', mp.parameter_names == (sorted(allnames) if (subset is None and order_idx == 0)
                                                                    else names))
    scalar_out = xform == 'scalar' or (xform == '1d' and dim > 1)
    if scalar_out:
        ctx.claim('shape_scalar', np.ndim(p) == 0 and np.ndim(lp) == 0)
        pv, lpv = [p], [lp]
    else:
        ctx.claim('shape_one_per_row', np.shape(p) == (nrows,) and np.shape(lp) == (nrows,))
        pv, lpv = list(p), list(lp)
    for i in range(nrows):
        if tail:
            # far tails: every conditional density positive but tiny.  Nothing special over the reals; in doubles this is
            # where a product of densities underflows, so the models of this region are what the concrete twin runs.
            terms = ref_terms(ctx, E, names, pts[i], False)
            ctx.assume(And(*[t[0] for t in terms]))
            if ctx.symbolic:
                ctx.assume(And(*[And(t[1] < Fraction(1, 10 ** 200), t[1] > Fraction(1, 10 ** 250)) for t in terms]))
            check_value(ctx, 'logpdf_row%d' % i, lpv[i], ref_terms(ctx, E, names, pts[i], True), True)
            continue
        check_value(ctx, 'pdf_row%d' % i, pv[i], ref_terms(ctx, E, names, pts[i], False), False)
        check_value(ctx, 'logpdf_row%d' % i, lpv[i], ref_terms(ctx, E, names, pts[i], True), True)
    if subset is not None:
        # evaluating a density must not draw random numbers for parameters that were not requested
        ctx.claim('no_rvs_during_pdf', E.rvs_log == {})


def h_pdf_history(ctx, shape, xform):
    """One ModelPrior object used repeatedly (as samplers and acquisition rules do): evaluated at an array, then the caller
    overwrites THAT array in place (or passes a new one: solver-chosen), possibly scribbles over the returned values, and
    evaluates again; every answer must be the density at the values the array holds at that moment."""
    E = Env(ctx, shape)
    names = sorted(n for n, _ in E.shape)
    dim = len(names)
    nrows = 2 if xform == '2d' else 1
    first = [{n: ctx.real('x%d_%s' % (i, n)) for n in names} for i in range(nrows)]
    second = [{n: ctx.real('z%d_%s' % (i, n)) for n in names} for i in range(nrows)]

    def arr(pts):
        return ctx.array([[q[n] for n in names] for q in pts]) if xform == '2d' else ctx.array([pts[0][n] for n in names])
    x = arr(first)
    same_array = ctx.flag('caller_reuses_its_array')
    scribble = ctx.flag('caller_overwrites_the_returned_values')
    log_first = ctx.flag('first_call_is_logpdf')
    with E.env():
        mp = ext.ModelPrior(E.model)
        r1 = mp.logpdf(x) if log_first else mp.pdf(x)
        r1v = list(np.atleast_1d(r1))
        if scribble and np.ndim(r1) > 0:
            r1[...] = 12345
        if same_array:
            x[...] = arr(second)
            x2 = x
        else:
            x2 = arr(second)
        p2 = mp.pdf(x2)
        lp2 = mp.logpdf(x2)
        # and once more at the first values, through a fresh array
        p3 = mp.pdf(arr(first))
    for i in range(nrows):
        check_value(ctx, 'first_call_row%d' % i, r1v[i], ref_terms(ctx, E, names, first[i], log_first), log_first)
        check_value(ctx, 'pdf_after_the_array_changed_row%d' % i, np.atleast_1d(p2)[i], ref_terms(ctx, E, names, second[i], False), False)
        check_value(ctx, 'logpdf_after_the_array_changed_row%d' % i, np.atleast_1d(lp2)[i], ref_terms(ctx, E, names, second[i], True), True)
        check_value(ctx, 'pdf_back_at_the_first_values_row%d' % i, np.atleast_1d(p3)[i], ref_terms(ctx, E, names, first[i], False), False)


def h_rvs(ctx, shape, order_idx, size):
    E = Env(ctx, shape)
    allnames = [n for n, _ in E.shape]
    perms = list(itertools.permutations(allnames))
    names = list(perms[order_idx % len(perms)])
    rs = object()
    with E.env():
        mp = ext.ModelPrior(E.model, names if order_idx else None)
        names = mp.parameter_names
        out = mp.rvs(size=size, random_state=rs)
    n = size or 1
    if size is None:
        ctx.claim('shape', np.shape(out) == ((len(names),) if len(names) > 1 else ()))
        rowsv = [list(np.atleast_1d(out))]
    elif len(names) == 1:
        ctx.claim('shape', np.shape(out) == (n,))
        rowsv = [[v] for v in out]
    else:
        ctx.claim('shape', np.shape(out) == (n, len(names)))
        rowsv = [list(r) for r in out]
    for nme in allnames:
        ctx.claim('one_rvs_call_%s' % nme, len(E.rvs_log.get(nme, [])) == 1)
    for j, nme in enumerate(names):
        params, vals, rstate = E.rvs_log[nme][0]
        ctx.claim('column_%d_is_%s' % (j, nme), And(*[close(rowsv[i][j], vals[i]) for i in range(n)]))
        ctx.claim('generator_passed_%s' % nme, rstate is rs)
        # conditional draws: the distribution arguments are the parents' draws of the same rows
        exp = []
        for p in E.parents_of(nme):
            exp.append(float(p[1:]) if p.startswith('#') else E.rvs_log[p][0][1])
        ok = len(params) == len(exp)
        conds = []
        for pa, ex in zip(params, exp):
            if isinstance(ex, float):
                conds.append(np.ndim(pa) == 0 and float(pa) == ex)
            else:
                conds.append(And(*[close(pa[i], ex[i]) for i in range(n)]))
        ctx.claim('arguments_are_parents_draws_%s' % nme, ok and And(*conds))


def h_gradient(ctx, shape, xform, with_step):
    E = Env(ctx, shape)
    names = sorted(n for n, _ in E.shape)
    dim = len(names)
    nrows = 2 if xform == '2d' else 1
    pts = [{n: ctx.real('x%d_%s' % (i, n)) for n in names} for i in range(nrows)]
    if xform == 'scalar':
        x = pts[0][names[0]]
    elif xform == '1d':
        x = ctx.array([pts[0][n] for n in names])
    else:
        x = ctx.array([[p[n] for n in names] for p in pts])
    if with_step:
        h = ctx.real('h', 0, None, lo_open=True)
    else:
        h = None
    with E.env():
        mp = ext.ModelPrior(E.model)
        g = mp.gradient_logpdf(x, stepsize=h)
    hh = h if h is not None else Fraction(1, 100000)
    scalar_like = xform == 'scalar' or (xform == '1d' and dim > 1)
    if scalar_like:
        ctx.claim('shape', np.shape(g) == (dim,))
        gv = [list(g)]
    else:
        ctx.claim('shape', np.shape(g) == (nrows, dim))
        gv = [list(r) for r in g]
    for i in range(nrows):
        probes = {}
        anyout = False
        for j, nme in enumerate(names):
            for sgn in (-1, 0, 1):
                pt = dict(pts[i])
                pt[nme] = pt[nme] + sgn * hh
                terms = ref_terms(ctx, E, names, pt, True)
                inside = And(*[t[0] for t in terms])
                probes[(j, sgn)] = (inside, Sum([t[1] for t in terms]))
        all_inside = And(*[v[0] for v in probes.values()])
        for j in range(dim):
            lo, hi = probes[(j, -1)], probes[(j, 1)]
            quot = (hi[1] - lo[1]) / (2 * hh)
            ctx.claim('row%d_d%d_is_central_difference_or_zero' % (i, j),
                      Or(And(all_inside, close(gv[i][j], quot, 1e-6)), And(Not(all_inside), gv[i][j] == 0)))


def mk_pdf(name, **p):
    tiers = p.pop('tiers', ('quick', 'thorough'))
    finding = p.pop('finding', None)
    return H(name, h_pdf, p, tiers=tiers, finding=finding,
             bounds='shape=%s order#%d subset=%s x %s%s' % (p['shape'], p['order_idx'], p['subset'], p['xform'],
                                                           '; every conditional density in (1e-250, 1e-200): the region where the '
                                                           'product underflows in doubles' if p.get('tail') else ''))


HARNESSES = [
    mk_pdf('pdf_one_scalar', shape='one', order_idx=0, subset=None, xform='scalar'),
    mk_pdf('pdf_one_1d', shape='one', order_idx=0, subset=None, xform='1d'),
    mk_pdf('pdf_one_1d_single_row', shape='one', order_idx=0, subset=None, xform='1d_single'),
    mk_pdf('pdf_collider_rev_1d', shape='collider_rev', order_idx=0, subset=None, xform='1d'),
    mk_pdf('pdf_one_2d', shape='one', order_idx=0, subset=None, xform='2d'),
    mk_pdf('pdf_indep2_1d', shape='indep2', order_idx=0, subset=None, xform='1d'),
    mk_pdf('pdf_indep2_2d_swapped', shape='indep2', order_idx=1, subset=None, xform='2d'),
    mk_pdf('pdf_chain2_2d', shape='chain2', order_idx=0, subset=None, xform='2d'),
    mk_pdf('pdf_chain2_1d_swapped', shape='chain2', order_idx=1, subset=None, xform='1d'),
    mk_pdf('pdf_const_arg_1d', shape='const_arg', order_idx=0, subset=None, xform='1d'),
    mk_pdf('pdf_chain3_1d', shape='chain3', order_idx=0, subset=None, xform='1d'),
    mk_pdf('pdf_chain3_2d_perm4', shape='chain3', order_idx=4, subset=None, xform='2d', tiers=('thorough',)),
    mk_pdf('pdf_fork3_1d_perm3', shape='fork3', order_idx=3, subset=None, xform='1d'),
    mk_pdf('pdf_collider3_2d_perm5', shape='collider3', order_idx=5, subset=None, xform='2d', tiers=('thorough',)),
    mk_pdf('pdf_chain2_1d_far_tail', shape='chain2', order_idx=0, subset=None, xform='1d', tail=True),
    # requested subsets
    mk_pdf('pdf_subset_indep2_a', shape='indep2', order_idx=0, subset=('a',), xform='scalar'),
    mk_pdf('pdf_subset_indep2_b_1d', shape='indep2', order_idx=0, subset=('b',), xform='1d'),
    mk_pdf('pdf_subset_chain3_ab', shape='chain3', order_idx=1, subset=('a', 'b'), xform='2d'),
    mk_pdf('pdf_subset_collider3_ba', shape='collider3', order_idx=1, subset=('a', 'b'), xform='1d', tiers=('thorough',)),
    H('pdf_history_indep2_2d', h_pdf_history, dict(shape='indep2', xform='2d'),
      bounds='2 parameters, (2,2) array: evaluate, caller overwrites its array in place or passes a new one, overwrites the '
             'returned values or not (solver-chosen), evaluate again twice'),
    H('pdf_history_chain2_1d', h_pdf_history, dict(shape='chain2', xform='1d'), bounds='chain a->b, 1-D point, same history'),
    H('rvs_one_size3', h_rvs, dict(shape='one', order_idx=0, size=3), bounds='1 parameter, size=3'),
    H('rvs_one_sizeNone', h_rvs, dict(shape='one', order_idx=0, size=None), bounds='1 parameter, size=None'),
    H('rvs_chain2_size2', h_rvs, dict(shape='chain2', order_idx=0, size=2), bounds='chain a->b, size=2'),
    H('rvs_chain3_perm_size2', h_rvs, dict(shape='chain3', order_idx=4, size=2), bounds='chain a->b->c, permuted order, size=2'),
    H('rvs_collider3_sizeNone', h_rvs, dict(shape='collider3', order_idx=2, size=None), bounds='collider, size=None'),
    H('rvs_collider_rev_size2', h_rvs, dict(shape='collider_rev', order_idx=0, size=2), bounds='collider with parents declared (b, a), size=2'),
    H('rvs_const_arg_size2', h_rvs, dict(shape='const_arg', order_idx=0, size=2), bounds='constant + parameter argument'),
    H('grad_one_scalar', h_gradient, dict(shape='one', xform='scalar', with_step=True), bounds='1 parameter, scalar x, symbolic h>0'),
    H('grad_indep2_1d', h_gradient, dict(shape='indep2', xform='1d', with_step=True), bounds='2 parameters, 1-D x, symbolic h>0'),
    H('grad_one_2d', h_gradient, dict(shape='one', xform='2d', with_step=False), bounds='1 parameter, 2 rows, default step 1e-5'),
    H('grad_chain2_1d', h_gradient, dict(shape='chain2', xform='1d', with_step=False), bounds='chain a->b, 1 row, default step 1e-5'),
    H('grad_chain3_1d', h_gradient, dict(shape='chain3', xform='1d', with_step=True), bounds='3 parameters chain, 1-D x',
      tiers=('thorough',)),
]

for _h in HARNESSES:
    if _h.name.endswith('_far_tail'):
        _h.float_region = True       # the concrete twin's verdict on the region's models is part of the check

MANIFEST = {
    'level_text': 'Bounded symbolic execution of the real ModelPrior on real ElfiModels with uninterpreted conditional densities: '
                  'for every evaluation point, every support-membership outcome and every distribution (PDF_k / log PDF_k / INSUP_k '
                  'uninterpreted) the joint density equals the product (log: sum) over exactly the requested parameters with the '
                  'parents\' values taken from the same point, is 0/-inf exactly when a factor is outside its support, has the '
                  'documented output shape; rvs columns follow parameter_names and condition on parents\' draws; the gradient is '
                  'the central difference quotient of the object\'s own logpdf (0 where a probe leaves the support).',
    'level_note': 'dependency shapes with <=3 parameters (independent, chain, fork, collider, constant argument), <=2 rows, all '
                  'listed orders/subsets; analytic derivative agreement is outside; z3 trusted.',
}
