"""C06 On-disk array stores keep exactly what was written, across reopen and crash."""
import io
import os
import pickle

import numpy as np

import elfi.store as est

from symx import core
from symx.explore import H
from symx.npfacade import patched, _Sub

PROPERTY = 'C06'
EXPLANATION = ('The real NpyArray / NpyStore code (append, overwrite through the memory map, delete last, clear, flush, close and '
               'reopen, pickle and unpickle; numpy.lib.format header writer/reader run for real) is executed on an in-memory file '
               'system that logs every low-level write/truncate. Operation scripts, dtype, row shape, batch size and the crash '
               'point are solver-chosen; after every operation the store is compared with a list model, after every flush/close '
               'the disk image is loaded with the real numpy.load, and for every crash point the image must load and equal the '
               'logical content at some instant between the last flush and the crash.')
ASSUMPTIONS = [
    'file semantics: a write()/truncate() issued through the file object reaches the disk image in program order; at a kill, any '
    'prefix of the operations issued since the last flush()/close() may have reached it (over-approximates Python\'s in-order '
    'user-space buffering); writes through the memory map reach the image immediately',
    'payload rows are distinct tagged values; the store code never inspects payload values (control flow is payload-independent), '
    'so the verdict for these tags stands for every payload - this part is parametricity, not a solver result, and is said so; '
    'what the code can observe of a batch besides its values - dtype, shape, memory layout (C / Fortran / strided view) - is a solver-chosen dimension of the configuration',
    'a single write() or memory-map assignment is atomic (torn writes outside)',
]
OUTSIDE = ['power loss / fsync', 'scripts longer than the bound', 'OutputPool.save/open pickling of the pool object',
           'files whose header says fortran_order=True']


# ------------------------------------------------------------------ in-memory file system

class MemFS:
    def __init__(self):
        self.files = {}        # name -> bytearray : the disk image
        self.oplog = []        # (name, kind, args) since the last barrier, in program order
        self.barrier_image = {}  # images at the last flush/close
        self.n_lowlevel = 0

    def exists(self, name):
        return name in self.files

    def remove(self, name):
        self.files.pop(name, None)

    def log(self, name, kind, *args):
        self.oplog.append((name, kind, args))
        self.n_lowlevel += 1

    def barrier(self):
        self.oplog = []
        self.barrier_image = {k: bytes(v) for k, v in self.files.items()}

    def persist(self):
        """Everything written through the file object so far has reached the OS (numpy.memmap seeks / flushes the
        file object when a map is created, which empties Python's write buffer): later kill points cannot lose it.
        This is not a logical flush of the store (the header may still be the old one)."""
        self.barrier()

    def crash_images(self, name):
        """Disk images of `name` after each prefix of the un-flushed operations."""
        img = bytearray(self.barrier_image.get(name, b''))
        out = [bytes(img)]
        for (n, kind, args) in self.oplog:
            if n != name:
                continue
            apply_op(img, kind, args)
            out.append(bytes(img))
        return out


def apply_op(img, kind, args):
    if kind == 'write':
        pos, data = args
        if pos > len(img):
            img.extend(b'\x00' * (pos - len(img)))
        img[pos:pos + len(data)] = data
    elif kind == 'truncate':
        (size,) = args
        if size < len(img):
            del img[size:]
        else:
            img.extend(b'\x00' * (size - len(img)))


class MemFile:
    """File object whose writes are applied in order to the image and logged for the crash model."""

    def __init__(self, fs, name, mode):
        self.fs, self.name, self.mode = fs, name, mode
        if 'w' in mode:
            fs.files[name] = bytearray()
            fs.log(name, 'truncate', 0)
        elif name not in fs.files:
            raise FileNotFoundError(name)
        self.pos = 0
        self.closed = False

    @property
    def img(self):
        return self.fs.files[self.name]

    def seek(self, pos, whence=0):
        self.pos = pos if whence == 0 else (self.pos + pos if whence == 1 else len(self.img) + pos)
        return self.pos

    def tell(self):
        return self.pos

    def write(self, data):
        data = bytes(data)
        apply_op(self.img, 'write', (self.pos, data))
        self.fs.log(self.name, 'write', self.pos, data)
        self.pos += len(data)
        return len(data)

    def read(self, n=-1):
        end = len(self.img) if n is None or n < 0 else min(len(self.img), self.pos + n)
        d = bytes(self.img[self.pos:end])
        self.pos = end
        return d

    def truncate(self, size=None):
        size = self.pos if size is None else size
        apply_op(self.img, 'truncate', (size,))
        self.fs.log(self.name, 'truncate', size)
        return size

    def flush(self):
        self.fs.barrier()

    def close(self):
        if not self.closed:
            self.fs.barrier()
            self.closed = True

    def fileno(self):
        raise OSError('no descriptor')


class MemMap:
    """Stand-in for numpy.memmap(fs, dtype, shape, offset): reads copy out of, writes go straight into, the image."""

    def __init__(self, f, dtype=None, shape=None, offset=0, order='C', mode='r+'):
        self.f, self.dtype, self.shape, self.offset = f, np.dtype(dtype), tuple(shape), offset
        need = offset + int(np.prod(shape)) * self.dtype.itemsize
        if need > len(f.img):
            raise ValueError('mmap length is greater than file size')
        f.fs.persist()

    def _arr(self):
        n = int(np.prod(self.shape))
        return np.frombuffer(bytes(self.f.img[self.offset:self.offset + n * self.dtype.itemsize]), dtype=self.dtype).reshape(self.shape)

    def __getitem__(self, sl):
        return self._arr()[sl].copy()

    def __setitem__(self, sl, value):
        a = self._arr().copy()
        a[sl] = value
        data = a.tobytes('C')
        # one assignment = one atomic update of the touched region, visible in the file at once (shared mapping):
        # it is part of every later crash image
        self.f.img[self.offset:self.offset + len(data)] = data
        self.f.fs.n_lowlevel += 1
        self.f.fs.persist()

    def __len__(self):
        return self.shape[0]


def env(fs):
    class _Path:
        @staticmethod
        def exists(p):
            return fs.exists(p)

        def __getattr__(self, name):
            return getattr(os.path, name)

    class _OS:
        path = _Path()

        @staticmethod
        def remove(p):
            fs.remove(p)

        def __getattr__(self, name):
            return getattr(os, name)

    def _open(name, mode='r', *a, **k):
        return MemFile(fs, name, mode)
    npf = _Sub(np, {'memmap': MemMap})
    return patched([(est, {'open': _open, 'os': _OS(), 'np': npf})])


# ------------------------------------------------------------------ harness

# (dtype, row shape, batch size[, memory layout of the batches handed to the store])
CONFIGS = [('f8', (), 1), ('f8', (2,), 2), ('i4', (), 2), ('f8', (2,), 1), ('i4', (3,), 2),
           ('f8', (2,), 2, 'F'), ('i4', (3,), 2, 'F'), ('f8', (2,), 2, 'strided'), ('i4', (), 2, 'strided')]


def batch_data(tag, dtype, rowshape, bs, layout='C'):
    n = int(np.prod((bs,) + rowshape))
    a = (np.arange(n, dtype=dtype) + 100 * tag).reshape((bs,) + rowshape)
    if layout == 'F':
        a = np.asfortranarray(a)              # same values, column-major in memory (e.g. x.T of a transposed result)
        assert not a.flags['C_CONTIGUOUS']
    elif layout == 'strided':
        big = np.zeros((2 * bs,) + rowshape, dtype=dtype) - 1
        big[::2] = a
        a = big[::2]                          # a non-contiguous view
        assert not a.flags['C_CONTIGUOUS']
    return a


def load_image(img):
    return np.load(io.BytesIO(img), allow_pickle=False)


def same_content(arr, logical, hidden_rows):
    """File content vs logical content; rows the store was told not to expose may follow."""
    if hidden_rows:
        return arr.dtype == logical.dtype and len(arr) >= len(logical) and np.array_equal(arr[:len(logical)], logical)
    return arr.shape == logical.shape and arr.dtype == logical.dtype and np.array_equal(arr, logical)


def model_array(model, dtype, rowshape):
    if not model:
        return np.zeros((0,) + rowshape, dtype=dtype)
    return np.concatenate(model, axis=0)


OPS = ('append', 'overwrite', 'delete_last', 'clear', 'flush', 'reopen', 'pickle', 'reopen_fewer')


def h_store(ctx, n_ops, ops=OPS, configs=None):
    cfg = (configs or CONFIGS)[ctx.choice('config', len(configs or CONFIGS))]
    dtype, rowshape, bs = np.dtype(cfg[0]), cfg[1], cfg[2]
    layout = cfg[3] if len(cfg) > 3 else 'C'
    fs = MemFS()
    name = 'store_file.npy'
    model = []            # list of batches (arrays): the logical content
    history = []          # logical contents since the last flush (for the crash claim)
    tag = [0]
    script = []
    hidden = [0]          # rows of the file beyond the store's view (after reopening with n_batches below the file's count)
    hidden_batches = []   # their contents (they become visible again when the file is reopened in full)

    old_handles = []      # idle second handles left behind by pickling

    def close_old():
        while old_handles:
            old_handles.pop(0).close()

    def fresh():
        tag[0] += 1
        return batch_data(tag[0], dtype, rowshape, bs, layout)

    def logical():
        return model_array(model, dtype, rowshape)

    def check_store(store, label):
        ctx.claim('%s_len' % label, len(store) == len(model))
        ctx.claim('%s_contains' % label, all((i in store) for i in range(len(model))) and (len(model) not in store))
        ctx.claim('%s_batches' % label, all(np.array_equal(store[i], model[i]) and store[i].dtype == dtype
                                            for i in range(len(model))))

    def check_crash(label):
        imgs = fs.crash_images(name)
        ok_all = True
        bad = None
        for k, img in enumerate(imgs):
            try:
                arr = load_image(img)
            except Exception as e:
                ok_all, bad = False, 'crash point %d/%d: file does not load (%s)' % (k, len(imgs) - 1, type(e).__name__)
                break
            if not any(same_content(arr, h, hr) for h, hr in history):
                ok_all, bad = False, 'crash point %d/%d: content %s matches no logical state since the flush' % (
                    k, len(imgs) - 1, arr.tolist())
                break
        if bad:
            ctx.note(bad)
        ctx.claim('%s_every_crash_image_loads_to_a_logical_state' % label, ok_all)

    # reading a batch goes through the memory map, whose creation writes the header: a harness that reads back after every
    # operation would hide e.g. a close() that forgets the header.  Whether the script's user reads in between is a choice.
    read_back = ctx.flag('user_reads_back_after_every_operation')
    with env(fs):
        store = est.NpyStore(name, bs)
        # initialise with the first batch and flush: property speaks of an initialised store after a flush
        model.append(fresh())
        store[0] = model[0]
        store.flush()
        history[:] = [(logical(), hidden[0])]
        for k in range(n_ops):
            op = ops[ctx.choice('op%d' % k, len(ops))]
            if op == 'append':
                b = fresh()
                store[len(model)] = b
                model.append(b)
                if hidden[0]:
                    hidden[0] = max(0, hidden[0] - bs)     # written in place over a hidden batch
                    hidden_batches[:] = hidden_batches[1:]
            elif op == 'overwrite':
                if not model:
                    raise core.Infeasible()
                i = ctx.choice('ow%d' % k, len(model))
                b = fresh()
                store[i] = b
                model[i] = b
            elif op == 'delete_last':
                if not model:
                    raise core.Infeasible()
                del store[len(model) - 1]
                model.pop()
                hidden[0] = 0          # truncation removes everything behind the deleted batch
                hidden_batches[:] = []
            elif op == 'clear':
                store.clear()
                model[:] = []
                hidden[0] = 0
                hidden_batches[:] = []
            elif op == 'flush':
                store.flush()
            elif op == 'reopen':
                store.close()
                close_old()
                history[:] = [(logical(), hidden[0])]
                ctx.claim('op%d_closed_file_is_standard_npy_with_the_content' % k,
                          same_content(load_image(bytes(fs.files[name])), logical(), hidden[0]))
                store = est.NpyStore(name, bs)
                # opened in full: rows that were hidden from the previous view are batches again
                model.extend(hidden_batches)
                hidden_batches[:] = []
                hidden[0] = 0
                history[:] = [(logical(), hidden[0])]
            elif op == 'reopen_fewer':
                # close, then open the file again exposing one batch less than it holds
                if len(model) < 2:
                    raise core.Infeasible()
                store.close()
                close_old()
                hidden[0] += bs
                hidden_batches[:] = [model.pop()] + hidden_batches
                history[:] = [(logical(), hidden[0])]
                store = est.NpyStore(name, bs, n_batches=len(model))
            elif op == 'pickle':
                blob = pickle.dumps(store)
                store2 = pickle.loads(blob)
                history[:] = [(logical(), hidden[0])]
                check_store(store2, 'op%d_unpickled' % k)
                # the pickled-from object stays around as a second, idle handle on the file and is closed late (at the
                # next reopen or at the end of the script): closing an unmodified handle must not change the file
                old_handles.append(store)
                store = store2
            script.append(op)
            history.append((logical(), hidden[0]))
            if op in ('flush',):
                history[:] = [(logical(), hidden[0])]
                img = bytes(fs.files[name])
                arr = load_image(img)
                ctx.claim('op%d_flushed_file_is_standard_npy_with_the_content' % k, same_content(arr, logical(), hidden[0]))
            if read_back or k == n_ops - 1:
                check_store(store, 'op%d_%s' % (k, op))
            check_crash('op%d_%s' % (k, op))
        ctx.note('config=%s script=%s' % (cfg, script))
        if old_handles:
            store.flush()
            close_old()
            arr = load_image(bytes(fs.files[name]))
            ctx.claim('closing_an_idle_second_handle_leaves_the_flushed_file_unchanged', same_content(arr, logical(), hidden[0]))
        store.close()
        arr = load_image(bytes(fs.files[name]))
        ctx.claim('final_close_file_loads_to_content', same_content(arr, logical(), hidden[0]))


HARNESSES = [
    H('script2', h_store, dict(n_ops=2), bounds='init+flush, then every script of 2 ops from %s; 9 dtype/row-shape/batch-size/memory-layout configs; '
                                               'kill after every low-level write/truncate' % (OPS,), witness=False),
    H('script3', h_store, dict(n_ops=3), bounds='every script of 3 ops; 9 configs', witness=False),
    H('script4_two_configs', h_store, dict(n_ops=4, configs=[CONFIGS[0], CONFIGS[1], CONFIGS[5]]), bounds='every script of 4 ops; 3 configs', witness=False,
      tiers=('thorough',)),
    H('script5_one_config', h_store, dict(n_ops=5, configs=CONFIGS[1:2]), bounds='every script of 5 ops; 1 config', witness=False,
      tiers=('thorough',), max_paths=400000),
]

MANIFEST = {
    'level_text': 'Exhaustive bounded exploration, driven by solver-chosen operation codes, of every operation script up to the '
                  'bound on the real NpyStore/NpyArray code over an in-memory file system with a crash model: store contents vs list '
                  'model after each op, numpy.load of the image after each flush/close, and for every kill point between two '
                  'flushes the image loads and equals a logical state of that window.',
    'level_note': 'The solver enumerates scripts and configurations (feasibility only); payload is tagged concrete data and the '
                  'generalisation to all payloads rests on the code never branching on payload (stated, not proved by the solver); '
                  'scripts <=3 ops (quick) / 5 (thorough); 9 dtype / row shape / batch size / memory layout (C, Fortran, strided) configurations; file model: in-order prefix persistence, atomic single writes.',
    'technique': 'bounded exhaustive exploration of solver-chosen operation scripts and crash points on the real code over a modelled file system',
}
