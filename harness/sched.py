"""SchedClient: an elfi client whose readiness answers are chosen by the solver."""
import itertools

import elfi.client

from symx import core


class SchedClient(elfi.client.ClientBase):
    """is_ready() answers are fresh symbolic Booleans (monotone per task: once ready, always ready); the
    total number of free answers is bounded by max_queries (later queries answer True).  Tasks are executed
    when their result is fetched, like the native client; the order in which outstanding tasks *would* have
    been executed by workers is unobservable for node operations that depend on the batch index only (the
    worlds used here), and is covered for generator-sharing operations by C02."""

    def __init__(self, ctx, num_cores=2, max_queries=8, always_ready=False, tag='c'):
        self.ctx = ctx
        self._num_cores = num_cores
        self.max_queries = max_queries
        self.always_ready = always_ready
        self.tag = tag
        self.tasks = {}
        self.ready = set()
        self.removed = set()
        self.fetched = []
        self.submitted = []
        self.queries = 0
        self._ids = itertools.count()
        self.errors = []
        self.max_outstanding = 0

    def apply(self, kallable, *args, **kwargs):
        id = next(self._ids)
        self.tasks[id] = (kallable, args, kwargs)
        self.submitted.append(id)
        self.max_outstanding = max(self.max_outstanding, len(self.tasks))
        return id

    def apply_sync(self, kallable, *args, **kwargs):
        return kallable(*args, **kwargs)

    def get_result(self, task_id):
        if task_id in self.removed:
            self.errors.append('get_result of removed task %d' % task_id)
        if task_id in self.fetched:
            self.errors.append('get_result called twice for task %d' % task_id)
        if task_id not in self.tasks:
            self.errors.append('get_result of unknown task %d' % task_id)
            raise KeyError(task_id)
        self.fetched.append(task_id)
        kallable, args, kwargs = self.tasks.pop(task_id)
        self.ready.add(task_id)
        return kallable(*args, **kwargs)

    def is_ready(self, task_id):
        if task_id not in self.tasks:
            self.errors.append('is_ready of task %d that is not outstanding' % task_id)
        if self.always_ready or task_id in self.ready:
            return True
        if self.queries >= self.max_queries:
            self.ready.add(task_id)
            return True
        q = self.queries
        self.queries += 1
        r = self.ctx.flag('%s.ready_q%d_task%d' % (self.tag, q, task_id))
        if r:
            self.ready.add(task_id)
        return r

    def remove_task(self, task_id):
        self.removed.add(task_id)
        self.tasks.pop(task_id, None)

    def reset(self):
        self.tasks.clear()

    @property
    def num_cores(self):
        return self._num_cores
