"""Program space for C02/C03/C14: small ELFI graphs described declaratively, built on the real node classes.

A program is a list of node specs (name, kind, positional parents, named parents {kw: parent}, observed?, uses_meta?).
Values are scalars: constants and observations are symbolic reals, every operation k is the uninterpreted function
F_<k>(positional values..., named values sorted by keyword..., [batch_size]) and records the keyword arguments it got.
"""
import collections

import numpy as np

import elfi
from symx import core

KINDS = ('Constant', 'Operation', 'Prior', 'Simulator', 'Summary', 'Discrepancy')


class Spec:
    def __init__(self, name, kind, pos=(), named=None, observed=False, uses_meta=False):
        self.name, self.kind, self.pos, self.named = name, kind, list(pos), dict(named or {})
        self.observed, self.uses_meta = observed, uses_meta
        self.meta_cleared = False    # uses_meta was switched on and off again before use: the node declares NO meta
        self.op_name = name          # which uninterpreted operation the node runs (changes when it `become`s another)
        self.decl_named = tuple(sorted(self.named))    # keywords the operation was declared with (part of its identity)

    def clone(self):
        c = Spec(self.name, self.kind, list(self.pos), dict(self.named), self.observed, self.uses_meta)
        c.op_name = self.op_name
        c.decl_named = self.decl_named
        c.meta_cleared = self.meta_cleared
        return c

    @property
    def stochastic(self):
        return self.kind in ('Prior', 'Simulator')

    @property
    def observable(self):
        return self.kind in ('Simulator', 'Summary')

    @property
    def uses_batch_size(self):
        return self.kind in ('Prior', 'Simulator')

    def __repr__(self):
        return '%s:%s(%s%s)%s%s' % (self.name, self.kind[:4], ','.join(self.pos),
                                    ''.join(',%s=%s' % kv for kv in sorted(self.named.items())),
                                    '*obs' if self.observed else '', '+meta' if self.uses_meta else '')


# curated programs: each exercises particular compiler/loader/executor features
PROGRAMS = {
    'chain': [Spec('t', 'Prior'), Spec('sim', 'Simulator', ['t'], observed=True), Spec('s', 'Summary', ['sim']),
              Spec('d', 'Discrepancy', ['s'])],
    'two_params_named': [Spec('a', 'Prior'), Spec('b', 'Prior', ['a']), Spec('k', 'Constant'),
                         Spec('sim', 'Simulator', ['b', 'a'], {'scale': 'k'}, observed=True),
                         Spec('s', 'Summary', ['sim'])],
    'shared_constant': [Spec('k', 'Constant'), Spec('a', 'Prior', ['k']), Spec('o', 'Operation', ['a', 'k']),
                        Spec('p', 'Operation', ['k', 'o'], {'z': 'a'})],
    'two_summaries': [Spec('t', 'Prior'), Spec('sim', 'Simulator', ['t'], observed=True, uses_meta=True),
                      Spec('s1', 'Summary', ['sim']), Spec('s2', 'Summary', ['sim'], uses_meta=True),
                      Spec('d', 'Discrepancy', ['s2', 's1'])],
    'summary_of_summary_partial_obs': [Spec('t', 'Prior'), Spec('sim', 'Simulator', ['t'], observed=True),
                                       Spec('s1', 'Summary', ['sim']), Spec('s2', 'Summary', ['s1'], observed=True),
                                       Spec('s3', 'Summary', ['s1', 's2']), Spec('d', 'Discrepancy', ['s3'])],
    'summary_with_constant': [Spec('t', 'Prior'), Spec('k', 'Constant'), Spec('k2', 'Constant'),
                              Spec('sim', 'Simulator', ['t'], observed=True),
                              Spec('s', 'Summary', ['sim', 'k'], {'w': 'k2'}), Spec('d', 'Discrepancy', ['s', 'k'])],
    'operation_between': [Spec('t', 'Prior'), Spec('sim', 'Simulator', ['t'], observed=True), Spec('k', 'Constant'),
                          Spec('o', 'Operation', ['k']), Spec('s', 'Summary', ['sim', 'o']), Spec('d', 'Discrepancy', ['s'])],
    'two_sims': [Spec('t', 'Prior'), Spec('x', 'Simulator', ['t'], observed=True), Spec('y', 'Simulator', ['t', 'x'], observed=True),
                 Spec('s', 'Summary', ['y', 'x']), Spec('d', 'Discrepancy', ['s'])],
    'fanout': [Spec('t', 'Prior'), Spec('o1', 'Operation', ['t']), Spec('o2', 'Operation', ['t', 'o1']),
               Spec('o3', 'Operation', ['o2', 'o1', 't'])],
    'disc_two_parents_meta': [Spec('t', 'Prior'), Spec('sim', 'Simulator', ['t'], observed=True),
                              Spec('s1', 'Summary', ['sim']), Spec('s2', 'Summary', ['sim']),
                              Spec('d', 'Discrepancy', ['s1', 's2'], uses_meta=True)],
    'mini': [Spec('t', 'Prior'), Spec('sim', 'Simulator', ['t'], observed=True), Spec('s', 'Summary', ['sim'])],
    'indep_priors': [Spec('b', 'Prior'), Spec('a', 'Prior'), Spec('c', 'Prior'), Spec('sim', 'Simulator', ['b', 'a', 'c'], observed=True)],
    'fork_sims': [Spec('t', 'Prior'), Spec('y', 'Simulator', ['t'], observed=True), Spec('x', 'Simulator', ['t'], observed=True),
                  Spec('s', 'Summary', ['x', 'y'])],
    # a discrepancy used as input of another discrepancy / of a summary
    'disc_of_disc_stochastic': [Spec('t', 'Prior'), Spec('sim', 'Simulator', ['t'], observed=True), Spec('s', 'Summary', ['sim']),
                                Spec('d1', 'Discrepancy', ['s']), Spec('d2', 'Discrepancy', ['d1', 's'])],
    'disc_of_disc_deterministic': [Spec('k', 'Constant'), Spec('o', 'Operation', ['k']), Spec('s', 'Summary', ['o'], observed=True),
                                   Spec('d1', 'Discrepancy', ['s']), Spec('d2', 'Discrepancy', ['d1', 's']),
                                   Spec('s2', 'Summary', ['d1', 's'])],
    # the same parent connected twice to one child (known finding: DiGraph keeps one edge per pair)
    'dup_parent': [Spec('a', 'Prior'), Spec('o', 'Operation', ['a', 'a'])],
    'dup_parent_named': [Spec('k', 'Constant'), Spec('a', 'Prior'), Spec('o', 'Operation', ['a', 'k'], {'w': 'k'})],
    # observed data would depend on a stochastic node: must be rejected
    'summary_of_prior': [Spec('t', 'Prior'), Spec('s', 'Summary', ['t']), Spec('d', 'Discrepancy', ['s'])],
    'summary_mixes_prior': [Spec('t', 'Prior'), Spec('sim', 'Simulator', ['t'], observed=True),
                            Spec('s', 'Summary', ['sim', 't']), Spec('d', 'Discrepancy', ['s'])],
}


class Built:
    """A program built on a real ElfiModel with recording operations."""

    def __init__(self, ctx, specs, tag='', draw_counts=None, insertion=None):
        self.draw_counts = draw_counts      # {stochastic node: number of generator draws per call} or None
        self.drawlog = []                    # (node, generator object, positions) in execution order
        self.insertion = insertion           # order in which nodes are added to the model (default: as listed)
        self.ctx = ctx
        self.specs = {s.name: s for s in specs}
        self.order = [s.name for s in specs]
        self.calls = collections.Counter()
        self.kwlog = collections.defaultdict(list)
        self.rs_seen = collections.defaultdict(list)
        self.meta_seen = collections.defaultdict(list)
        self.const = {}
        self.obs = {}
        self.tag = tag
        self.model = self._build(specs)

    def fname(self, spec):
        return 'F_%s_%s' % (spec.op_name, '_'.join(spec.decl_named))

    def _op(self, spec):
        B = self
        ctx = self.ctx

        def op(*args, **kw):
            B.calls[spec.name] += 1
            B.kwlog[spec.name].append(tuple(sorted(kw)))
            if 'random_state' in kw:
                B.rs_seen[spec.name].append(kw['random_state'])
            if 'meta' in kw:
                B.meta_seen[spec.name].append(kw['meta'])
            vals = list(args) + [kw[k] for k in sorted(spec.named) if k in kw]
            if B.draw_counts is not None and 'random_state' in kw:
                rs = kw['random_state']
                pos0 = rs.pos
                vals.extend(rs.take(B.draw_counts.get(spec.name, 1)))
                B.drawlog.append((spec.name, rs, list(range(pos0, rs.pos))))
            if 'batch_size' in kw:
                vals.append(kw['batch_size'])
            if 'observed' in kw:
                vals.extend(list(kw['observed']))
            return ctx.apply_uf(B.fname(spec) + ('_obs%d' % len(kw['observed']) if 'observed' in kw else ''), vals)
        return op

    def _build(self, specs):
        ctx = self.ctx
        m = elfi.ElfiModel()
        ref = {}
        if self.insertion:
            byname = {s.name: s for s in specs}
            specs = [byname[n] for n in self.insertion]
        for s in specs:
            parents = [ref[p] for p in s.pos]
            if s.kind == 'Constant':
                self.const[s.name] = ctx.real('const_%s%s' % (s.name, self.tag))
                ref[s.name] = elfi.Constant(self.const[s.name], model=m, name=s.name)
                continue
            op = self._op(s)
            kw = {}
            if s.observed:
                self.obs[s.name] = ctx.real('obs_%s%s' % (s.name, self.tag))
                kw['observed'] = self.obs[s.name]
            if s.kind == 'Operation':
                n = elfi.Operation(op, *parents, model=m, name=s.name)
            elif s.kind == 'Prior':
                class D:
                    pass
                D.rvs = staticmethod(lambda *a, size=None, random_state=None, _op=op: _op(*a, batch_size=size[0],
                                                                                         random_state=random_state))
                n = elfi.Prior(D, *parents, model=m, name=s.name)
            elif s.kind == 'Simulator':
                n = elfi.Simulator(op, *parents, model=m, name=s.name, **kw)
            elif s.kind == 'Summary':
                n = elfi.Summary(op, *parents, model=m, name=s.name, **kw)
            elif s.kind == 'Discrepancy':
                n = elfi.Discrepancy(op, *parents, model=m, name=s.name)
            for k, p in sorted(s.named.items()):
                m.add_edge(p, s.name, param_name=k)
            if s.uses_meta:
                n.uses_meta = True
            elif getattr(s, 'meta_cleared', False):
                n.uses_meta = True         # a flag history: declared, then withdrawn through the public setter
                n.uses_meta = False
            ref[s.name] = n
        return m

    # ---- the meaning of the program, from the declared structure only
    def denote(self, outputs, supplied, batch_size):
        """-> ('ok', {name: value}, expected_calls Counter) | ('reject', reason)"""
        ctx = self.ctx
        val, twin = {}, {}
        calls = collections.Counter()

        def args_of(s, getter):
            vals = [getter(p) for p in s.pos] + [getter(s.named[k]) for k in sorted(s.named)]
            return vals

        def v(name):
            if name in val:
                return val[name]
            s = self.specs[name]
            if name in supplied:
                val[name] = supplied[name]
            elif s.kind == 'Constant':
                val[name] = self.const[name]
            else:
                vals = args_of(s, v)
                if s.uses_batch_size:
                    vals.append(batch_size)
                fn = self.fname(s)
                if s.kind == 'Discrepancy':
                    tw = [t(p) for p in s.pos]       # tuple of the positional... and named parents' twins
                    tw += [t(s.named[k]) for k in sorted(s.named)]
                    vals.extend(tw)
                    fn += '_obs%d' % len(tw)
                calls[name] += 1
                val[name] = ctx.apply_uf(fn, vals)
            return val[name]

        def t(name):
            """observed twin (for observable nodes); other nodes stand for themselves."""
            s = self.specs[name]
            if not s.observable:
                # a non-observable node stands for itself on the observed side: its (simulated) value must not
                # depend on any stochastic node
                check_det(name)
                return v(name)
            if name in twin:
                return twin[name]
            if name in self.obs:
                twin[name] = self.obs[name]
            else:
                if s.stochastic:
                    raise Reject('observed data depends on stochastic node %s' % name)
                vals = args_of(s, t)
                calls['_%s_observed' % name] += 1
                twin[name] = ctx.apply_uf(self.fname(s), vals)
            return twin[name]

        def check_det(name):
            s = self.specs[name]
            if s.stochastic:
                raise Reject('observed data depends on stochastic node %s' % name)
            for p in s.pos + list(s.named.values()):
                check_det(p)
        try:
            res = {o: v(o) for o in outputs}
        except Reject as e:
            return ('reject', str(e))
        return ('ok', res, calls)


class Reject(Exception):
    pass
