"""C07 SMC-ABC populations satisfy thresholds, prior support and importance weights."""
from fractions import Fraction

import numpy as np

import elfi
import elfi.methods.utils as mu
import elfi.methods.inference.samplers as smp

from symx import core
from symx.core import And, Or, Not, Implies, Sum, If, close, count_true, INF, SymX
from symx.explore import H
from symx.npfacade import patched, NPFacade, _Sub
from symx.stubs import SSFacade, SymRandomState
from harness.abcworld import World

PROPERTY = 'C07'
EXPLANATION = ('elfi.SMC(...).sample(n, thresholds=[..] | quantiles=[..]) runs whole on the real code (SMC.set_objective, update, '
               '_init_new_round, prepare_new_batch, _compute_weights_means_and_cov, _set_threshold, _extract_population, inner '
               'Rejection, GMDistribution.rvs/logpdf, weighted_var, weighted_sample_quantile, ModelPrior.logpdf) on symbolic '
               'draws; the prior log-density and support are uninterpreted (LOGPDF_t, INSUP_t), the normal density is the '
               'uninterpreted MVNPDF, proposal component indices and perturbations are solver-chosen generator draws.')
ASSUMPTIONS = [
    'prior: finite log-density LOGPDF_t on the support, -inf outside, INSUP_t uninterpreted; draws of the prior are in its support',
    'multivariate normal density MVNPDF > 0 (uninterpreted otherwise); exp/log are uninterpreted with monotonicity, exp>0, '
    'log(exp(x)) = x instances',
    'RandomState.choice never returns an index of probability 0; normal perturbations are arbitrary reals',
    'discrepancies finite or +inf, at least n admissible finite draws per round (C01 finding region excluded)',
    'exact reals',
]
OUTSIDE = ['that accepted particles are distributed correctly', 'AdaptiveDistanceSMC / AdaptiveThresholdSMC',
           'more batches / proposal retries than the bound (Cut)', 'dimension > 1 for whole runs (two-parameter populations are checked on _compute_weights_means_and_cov only)']


class RoundRS(SymRandomState):
    """np.random.RandomState(seed) inside samplers.py: one named symbolic stream per seed."""

    def __init__(self, seed=None):
        super().__init__(name='rr%s' % seed)


def smc_env(w):
    ctx = w.ctx
    b = []
    fac = NPFacade(random=_Sub(np.random, {'RandomState': RoundRS}))
    w.gm_calls = []

    class RecGM(mu.GMDistribution):
        """The real mixture distribution; records with which parameters the sampler uses it and how many populations
        existed at that moment."""

        @classmethod
        def logpdf(cls, x, means, cov=1, weights=None):
            w.gm_calls.append(('logpdf', len(getattr(w, 'smc', None)._populations) if getattr(w, 'smc', None) is not None else None,
                               means, cov, weights))
            return mu.GMDistribution.logpdf(x, means, cov, weights)

        @classmethod
        def rvs(cls, means, cov=1, weights=None, size=1, prior_logpdf=None, random_state=None):
            w.gm_calls.append(('rvs', len(getattr(w, 'smc', None)._populations) if getattr(w, 'smc', None) is not None else None,
                               means, cov, weights))
            return mu.GMDistribution.rvs(means, cov, weights, size=size, prior_logpdf=prior_logpdf, random_state=random_state)
    b.append((smp, {'np': fac, 'GMDistribution': RecGM}))
    b.append((mu, {'ss': SSFacade()}))
    return b


def wvar_ref(xs, ws):
    V1 = Sum(ws)
    V2 = Sum([w * w for w in ws])
    xbar = Sum([w * x for w, x in zip(ws, xs)]) / V1
    return V1 / (V1 * V1 - V2) * Sum([w * (x - xbar) * (x - xbar) for w, x in zip(ws, xs)])


def h_smc(ctx, bs, n, mode, rounds, K, max_trials=2, max_parallel=1, bounded=True, split=None, stop_early=False):
    w = World(ctx, bs, max_batches=K, d_specials=(), bounded_prior=bounded)
    trials = [0]
    kw = {}
    if mode == 'thresholds':
        ths = [ctx.real('thr%d' % r) for r in range(rounds)]
        kw['thresholds'] = list(ths)
    else:
        qs = [ctx.real('q%d' % r, 0, 1, lo_open=True) for r in range(rounds)]
        kw['quantiles'] = list(qs)
    with w.env(), patched(smc_env(w)):
        smc = elfi.SMC(w.model['d'], batch_size=bs, seed=w.seed, max_parallel_batches=max_parallel)
        w.smc = smc
        w.watch(smc)
        # bound the number of proposal retries inside one GMDistribution.rvs call
        orig_logpdf = smc._prior.logpdf
        orig_prepare = smc.prepare_new_batch

        def logpdf(x):
            trials[0] += 1
            if trials[0] > max_trials:
                raise core.Cut('more than %d proposal trials for one batch' % max_trials)
            return orig_logpdf(x)

        def prepare_new_batch(batch_index):
            trials[0] = 0
            try:
                return orig_prepare(batch_index)
            finally:
                trials[0] = -1000
        smc._prior.logpdf = logpdf
        smc.prepare_new_batch = prepare_new_batch
        trials[0] = -1000
        if split:
            # the rounds are run in two calls of sample() on the same sampler object (continued sampling after a real
            # first call: whatever the first call left in the object is what the second one starts from).  To keep the
            # first call cheap its rounds are pinned to the simplest course: batch r is accepted whole, in order.
            key = 'thresholds' if mode == 'thresholds' else 'quantiles'
            for b in range(split):
                dv = list(w.col('d', b))
                w.calls[('d', b)] -= 1
                for i in range(bs - 1):
                    ctx.assume(dv[i] < dv[i + 1])
                if mode == 'thresholds':
                    ctx.assume(dv[-1] <= ths[b])
            smc.sample(n, bar=False, **{key: kw[key][:split]})
            for pop in smc._populations:
                # non-degenerate populations (identical particles give a singular proposal covariance: scipy raises)
                ctx.assume(np.asarray(pop.meta['cov'], dtype=object).reshape(-1)[0] > 0)
            if stop_early:
                # only the first proposal of the continued call is observed (cheap): which population it is drawn from
                class StopHere(Exception):
                    pass
                inner = smc.prepare_new_batch

                def prepare_then_stop(batch_index):
                    inner(batch_index)
                    raise StopHere()
                smc.prepare_new_batch = prepare_then_stop
                n_before = len(w.gm_calls)
                try:
                    smc.sample(n, bar=False, **{key: kw[key][split:]})
                except StopHere:
                    pass
                ctx.claim('the_continued_call_made_a_proposal', len(w.gm_calls) > n_before)
                proposal_claims(ctx, w, list(smc._populations))
                return
            res = smc.sample(n, bar=False, **{key: kw[key][split:]})
        else:
            res = smc.sample(n, bar=False, **kw)
    pops = res.populations
    ctx.note('mode=%s consumed=%s' % (mode, w.consumed))
    ctx.claim('n_populations', len(pops) == rounds)
    proposal_claims(ctx, w, pops)
    if split:
        # the heavy per-round weight identities are decided by the single-call harnesses; here: what the continued call
        # proposes from and weights against
        for r, pop in enumerate(pops):
            ctx.claim('pop%d_has_n_particles' % r, len(pop.outputs['t']) == n and len(pop.weights) == n)
            if mode == 'thresholds':
                ctx.claim('pop%d_all_within_threshold' % r, And(*[d <= ths[r] for d in pop.outputs['d']]))
        ctx.claim('result_is_last_population', And(*[close(a, b) for a, b in zip(res.outputs['t'], pops[-1].outputs['t'])]))
        return
    total_batches = 0
    for r, pop in enumerate(pops):
        force = None
        if mode == 'thresholds':
            force = ths[r]
        round_claims(ctx, smc, r, pop, pops[r - 1] if r else None, force, qs[r] if mode == 'quantiles' else None, n, bounded)
        total_batches += pop.n_batches
    ctx.claim('n_sim_is_total_over_rounds', res.n_sim == bs * len(w.consumed))
    ctx.claim('n_batches_sum_of_rounds', res.n_batches == len(w.consumed) and total_batches == len(w.consumed))
    ctx.claim('consumed_in_index_order', w.consumed == list(range(len(w.consumed))))
    ctx.claim('result_is_last_population', And(*[close(a, b) for a, b in zip(res.outputs['t'], pops[-1].outputs['t'])]))


def proposal_claims(ctx, w, pops):
    """Every use of the mixture proposal (drawing candidates, evaluating its density for the weights) while k populations
    exist takes its means, covariance and weights from population k-1: the previous population."""
    ok_n = True
    for kind, k, means, cov, weights in w.gm_calls:
        if k is None or k < 1 or k > len(pops):
            ok_n = False
            continue
        prev = pops[k - 1]
        ctx.claim('mixture_%s_with_%d_populations_uses_the_previous_population' % (kind, k), And(
            *[close(a, b) for a, b in zip(np.asarray(means, dtype=object).reshape(-1), list(prev.outputs['t']))],
            *[close(a, b) for a, b in zip(np.asarray(weights, dtype=object).reshape(-1), list(prev.weights))],
            close(np.asarray(cov, dtype=object).reshape(-1)[0], np.asarray(prev.meta['cov'], dtype=object).reshape(-1)[0])))
    ctx.claim('mixture_used_only_when_a_previous_population_exists', ok_n)


def round_claims(ctx, smc, r, pop, prev, force, qr, n, bounded):
    th = pop.outputs['t']
    dd = pop.outputs['d']
    ctx.claim('pop%d_has_n_particles' % r, len(th) == n and len(dd) == n and len(pop.weights) == n)
    if force is None and prev is not None:
        pd_, pw_ = list(prev.outputs['d']), list(prev.weights)
        W = Sum(pw_)
        q = smc.objective['thresholds'][r]
        ctx.claim('pop%d_threshold_is_weighted_quantile_of_previous' % r, And(
            Or(*[q == x for x in pd_]),
            qr * W <= Sum([If(x <= q, wi, 0) for x, wi in zip(pd_, pw_)]),
            Sum([If(x < q, wi, 0) for x, wi in zip(pd_, pw_)]) <= qr * W))
        force = q
    if force is not None:
        ctx.claim('pop%d_all_within_threshold' % r, And(*[d <= force for d in dd]))
    ctx.claim('pop%d_reported_threshold_is_largest' % r, And(*[d <= pop.threshold for d in dd]))
    # the covariance stored with this population (the next round's proposal covariance)
    cov_own = pop.meta['cov']
    wl = list(pop.weights)
    nondegenerate = Not(Sum(wl) * Sum(wl) == Sum([x * x for x in wl]))
    if not ctx.symbolic and not all(np.isfinite(float(x)) and 1e-100 < float(x) < 1e100 for x in wl):
        nondegenerate = False      # float under/overflow of the weights on replay: outside the (exact real) claim
    # the weights are exp(...) terms: the identity is polynomial in them, so they are abstracted to fresh reals
    ctx.claim('pop%d_own_cov_is_twice_weighted_variance' % r,
              np.shape(cov_own) == (1, 1) and
              Implies(nondegenerate, close(cov_own[0, 0], 2 * wvar_ref(list(th), wl), 1e-7)),
              abstract=[x for x in wl if core.is_sym(x)], hyps=[x > 0 for x in wl if core.is_sym(x)])
    if prev is None:
        ctx.claim('pop0_weights_are_one', And(*[wi == 1 for wi in pop.weights]))
        return
    mus = list(prev.outputs['t'])
    pw_ = list(prev.weights)
    W = Sum(pw_)
    cov_code = prev.meta['cov']
    # non-degenerate previous population (identical particles give a singular proposal covariance)
    ctx.assume(cov_code[0, 0] > 0)
    ctx.claim('pop%d_proposal_means_are_previous_particles' % r,
              And(*[close(a, b) for a, b in zip(np.asarray(prev.means).reshape(-1), mus)]))
    for i in range(n):
        insup = ctx.apply_uf('INSUP_t', [th[i]], sort='bool') if bounded else True
        ctx.claim('pop%d_particle%d_in_prior_support' % (r, i), insup)
        comps = [ctx.apply_uf('MVNPDF1', [th[i], mus[j], cov_code[0, 0]]) for j in range(n)]
        q = Sum([pw_[j] / W * comps[j] for j in range(n)])
        lp = ctx.apply_uf('LOGPDF_t', [th[i]])
        if ctx.symbolic:
            ref = ctx.uf_exp(lp - ctx.uf_log(q))
            ctx.claim('pop%d_weight%d_is_prior_over_mixture' % (r, i), pop.weights[i] == ref)
        else:
            import math
            if not (q > 0 and math.isfinite(q)):
                # the mixture density underflowed in doubles at this replay point: outside the (exact real) claim
                ctx.claim('pop%d_weight%d_is_prior_over_mixture' % (r, i), True)
                continue
            try:
                ref = math.exp(lp - math.log(q))
            except OverflowError:
                ref = INF                 # overflow in doubles at this replay point (numpy gives inf as well)
            ctx.claim('pop%d_weight%d_is_prior_over_mixture' % (r, i), close(pop.weights[i], ref, 1e-6))


def h_smc_continue(ctx, bs, n, mode, K, max_trials=2, bounded=False):
    """Continued sampling on an existing sampler whose previous population has arbitrary positive weights:
    the sampler state is constructed directly (one population present), then sample() runs one more round."""
    from elfi.methods.results import Sample
    w = World(ctx, bs, max_batches=K, d_specials=(), bounded_prior=bounded)
    trials = [-1000]
    pt = [ctx.real('prev_t%d' % i) for i in range(n)]
    pd_ = [ctx.real('prev_d%d' % i) for i in range(n)]
    pw = [ctx.real('prev_w%d' % i, 0, None, lo_open=True) for i in range(n)]
    pcov = ctx.real('prev_cov', 0, None, lo_open=True)
    # a population as _extract_population leaves it: sorted by discrepancy
    for i in range(n - 1):
        ctx.assume(pd_[i] <= pd_[i + 1])
    kw = {}
    thr = qv = None
    if mode == 'thresholds':
        thr = ctx.real('thr')
        kw['thresholds'] = [thr]
    else:
        qv = ctx.real('q', 0, 1, lo_open=True)
        kw['quantiles'] = [qv]
    with w.env(), patched(smc_env(w)):
        smc = elfi.SMC(w.model['d'], batch_size=bs, seed=w.seed, max_parallel_batches=1)
        prev = Sample(method_name='Rejection within SMC-ABC', outputs={'t': ctx.array(pt), 'd': ctx.array(pd_)},
                      parameter_names=['t'], discrepancy_name='d', weights=ctx.array(pw), threshold=pd_[-1],
                      n_batches=0, n_sim=0, seed=w.seed, cov=ctx.array([[pcov]]))
        prev.means = ctx.array([[x] for x in pt])
        smc._populations = [prev]
        w.watch(smc)
        orig_logpdf = smc._prior.logpdf
        orig_prepare = smc.prepare_new_batch

        def logpdf(x):
            trials[0] += 1
            if trials[0] > max_trials:
                raise core.Cut('more than %d proposal trials for one batch' % max_trials)
            return orig_logpdf(x)

        def prepare_new_batch(batch_index):
            trials[0] = 0
            try:
                return orig_prepare(batch_index)
            finally:
                trials[0] = -1000
        smc._prior.logpdf = logpdf
        smc.prepare_new_batch = prepare_new_batch
        res = smc.sample(n, bar=False, **kw)
    pops = res.populations
    ctx.claim('two_populations', len(pops) == 2 and pops[0] is prev)
    round_claims(ctx, smc, 1, pops[1], prev, thr, qv, n, bounded)
    ctx.claim('n_sim_counts_this_call', res.n_sim == bs * len(w.consumed))


def h_population_two_params(ctx, n, later):
    """Weights, proposal means and covariance of a population of a TWO-parameter model (t, u), computed by the sampler's own
    _compute_weights_means_and_cov from a population handed to it: first population (weights 1) or a later one (previous
    population with arbitrary positive weights and diagonal covariance constructed directly)."""
    from elfi.methods.results import Sample
    w = World(ctx, 2, max_batches=1, d_specials=(), bounded_prior=False, extra_param=True)
    T = [ctx.real('t%d' % i) for i in range(n)]
    U = [ctx.real('u%d' % i) for i in range(n)]
    D = [ctx.real('d%d' % i) for i in range(n)]
    ctx.assume_nonzero_divisors = True
    with w.env(), patched(smc_env(w)):
        smc = elfi.SMC(w.model['d'], batch_size=2, seed=w.seed)
        ctx.claim('parameter_order', list(smc.parameter_names) == ['t', 'u'])
        if later:
            pt = [ctx.real('prev_t%d' % i) for i in range(n)]
            pu = [ctx.real('prev_u%d' % i) for i in range(n)]
            pw = [ctx.real('prev_w%d' % i, 0, None, lo_open=True) for i in range(n)]
            cv = [ctx.real('prev_cov%d' % k, 0, None, lo_open=True) for k in range(2)]
            prev = Sample(method_name='Rejection within SMC-ABC', outputs={'t': ctx.array(pt), 'u': ctx.array(pu), 'd': ctx.array(D)},
                          parameter_names=['t', 'u'], discrepancy_name='d', weights=ctx.array(pw), threshold=D[-1],
                          n_batches=0, n_sim=0, seed=w.seed, cov=ctx.array([[cv[0], 0], [0, cv[1]]]))
            prev.means = ctx.array([[a, b] for a, b in zip(pt, pu)])
            smc._populations = [prev]
        # the outputs dict lists u before t: the column order must come from parameter_names
        pop = Sample(method_name='Rejection within SMC-ABC', outputs={'u': ctx.array(U), 't': ctx.array(T), 'd': ctx.array(D)},
                     parameter_names=['t', 'u'], discrepancy_name='d', threshold=D[-1], n_batches=1, n_sim=2, seed=w.seed)
        means, wts, cov = smc._compute_weights_means_and_cov(pop)
    ctx.claim('shapes', np.shape(means) == (n, 2) and np.shape(wts) == (n,) and np.shape(cov) == (2, 2))
    ctx.claim('proposal_means_are_the_particles_in_parameter_order',
              And(*[And(close(means[i][0], T[i]), close(means[i][1], U[i])) for i in range(n)]))
    wl = list(wts)
    if not later:
        ctx.claim('first_population_weights_are_one', And(*[x == 1 for x in wl]))
    else:
        W = Sum(pw)
        for i in range(n):
            comps = [ctx.apply_uf('MVNPDF2', [T[i], U[i], pt[j], pu[j], cv[0], 0, 0, cv[1]]) for j in range(n)]
            q = Sum([pw[j] / W * comps[j] for j in range(n)])
            lp = ctx.apply_uf('LOGPDF_t', [T[i]]) + ctx.apply_uf('LOGPDF_u', [U[i]])
            if ctx.symbolic:
                ctx.claim('weight%d_is_joint_prior_over_mixture_of_previous_population' % i, wl[i] == ctx.uf_exp(lp - ctx.uf_log(q)))
            else:
                import math
                ctx.claim('weight%d_is_joint_prior_over_mixture_of_previous_population' % i,
                          close(wl[i], math.exp(lp - math.log(q)), 1e-6) if q > 0 else True)
    nondegenerate = Not(Sum(wl) * Sum(wl) == Sum([x * x for x in wl]))
    for k, col in enumerate((T, U)):
        ctx.claim('cov_%d%d_is_twice_weighted_variance_of_parameter_%d' % (k, k, k),
                  Implies(nondegenerate, close(cov[k, k], 2 * wvar_ref(col, wl), 1e-7)),
                  abstract=[x for x in wl if core.is_sym(x)], hyps=[x > 0 for x in wl if core.is_sym(x)])
    ctx.claim('cov_is_diagonal', And(close(cov[0, 1], 0), close(cov[1, 0], 0)))


def mk(name, **p):
    tiers = p.pop('tiers', ('quick', 'thorough'))
    b = 'batch_size=%d n=%d %s rounds=%d <=%d batches%s%s' % (p['bs'], p['n'], p['mode'], p['rounds'], p['K'],
                                                           '' if p.get('bounded', True) else ' unbounded prior',
                                                           '; rounds run as two sample() calls (%d + %d) on one sampler object' % (
                                                               p['split'], p['rounds'] - p['split']) if p.get('split') else '')
    return H(name, h_smc, p, tiers=tiers, bounds=b, path_timeout=300)


HARNESSES = [
    mk('thr_bs2_n2_two_calls_first_proposal', bs=2, n=2, mode='thresholds', rounds=3, K=3, bounded=False, split=2, max_trials=1,
       stop_early=True),
    mk('thr_bs2_n2_r3_two_calls_unbounded', bs=2, n=2, mode='thresholds', rounds=3, K=3, bounded=False, split=2, max_trials=1,
       tiers=('thorough',)),
    mk('thr_bs2_n2_r1', bs=2, n=2, mode='thresholds', rounds=1, K=2),
    mk('thr_bs2_n2_r2_unbounded', bs=2, n=2, mode='thresholds', rounds=2, K=2, bounded=False),
    mk('thr_bs1_n2_r2_bounded', bs=1, n=2, mode='thresholds', rounds=2, K=4),
    mk('q_bs2_n2_r2_unbounded', bs=2, n=2, mode='quantiles', rounds=2, K=2, bounded=False),
    H('continue_thr_bs2_n2', h_smc_continue, dict(bs=2, n=2, mode='thresholds', K=1), path_timeout=300,
      bounds='existing population with arbitrary positive weights, one more round, thresholds, batch_size=2 n=2 1 batch'),
    H('continue_q_bs2_n2', h_smc_continue, dict(bs=2, n=2, mode='quantiles', K=1), path_timeout=300,
      bounds='existing population with arbitrary positive weights, one more round, quantiles, batch_size=2 n=2 1 batch'),
    H('continue_thr_bs3_n3', h_smc_continue, dict(bs=3, n=3, mode='thresholds', K=1), path_timeout=300,
      bounds='existing population (3 particles, arbitrary positive weights), one more round, thresholds, batch_size=3 n=3 1 batch',
      tiers=('thorough',)),
    H('continue_q_bs1_n2_bounded', h_smc_continue, dict(bs=1, n=2, mode='quantiles', K=2, bounded=True), path_timeout=300,
      bounds='existing population, one more round, quantiles, bounded prior, batch_size=1 n=2 2 batches', tiers=('thorough',)),
    H('population_two_params_first_n3', h_population_two_params, dict(n=3, later=False), path_timeout=300,
      bounds='2 parameters (t, u), 3 particles, first population: means / weights / covariance'),
    H('population_two_params_later_n2', h_population_two_params, dict(n=2, later=True), path_timeout=300,
      bounds='2 parameters, 2 particles, later population: previous population with arbitrary positive weights and diagonal '
             'covariance constructed directly'),
    mk('thr_bs2_n2_r2_bounded', bs=2, n=2, mode='thresholds', rounds=2, K=2, tiers=('thorough',)),
    mk('q_bs1_n2_r2_bounded', bs=1, n=2, mode='quantiles', rounds=2, K=4, tiers=('thorough',)),
    mk('thr_bs2_n2_r2_K3_unbounded', bs=2, n=2, mode='thresholds', rounds=2, K=3, bounded=False, tiers=('thorough',)),
    mk('thr_bs2_n2_r3_unbounded', bs=2, n=2, mode='thresholds', rounds=3, K=3, bounded=False, tiers=('thorough',)),
]

MANIFEST = {
    'level_text': 'Bounded symbolic execution of whole SMC.sample runs on the real code: for every value of the simulated draws, '
                  'proposal component choices and perturbations, prior support outcomes and threshold/quantile lists within the '
                  'bounds, each population has n particles within the threshold in force (user threshold or the weighted quantile '
                  'of the previous population, itself checked against its definition), later particles lie in the prior support, '
                  'weights are 1 resp. prior/mixture with the mixture centred on the previous particles with their weights and '
                  'covariance 2*weighted variance, and n_sim counts all consumed simulations (SMT validity queries per path).',
    'level_note': '1 parameter, n=2 particles, batch_size 2, <=2..3 rounds, <=2..3 batches, bounded proposal retries; continued sampling both from a constructed population and after a real two-round first call; the mixture parameters used are recorded and compared with the previous population; densities, '
                  'exp/log uninterpreted with the listed axioms; exact reals; z3 trusted.',
}
