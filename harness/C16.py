"""C16 Result objects report what the sampler produced, and hand exactly that to the serialisers when saved."""
import itertools
from fractions import Fraction

import numpy as np

import elfi.methods.results as mres
import elfi.methods.mcmc as mcmc
import elfi.methods.utils as mu

from symx import core
from symx.core import And, Or, Not, Implies, Sum, If, close, SymX
from symx.explore import H
from symx.npfacade import patched, std_bindings, NPFacade, _Sub, objarray, has_sym

PROPERTY = 'C16'
EXPLANATION = ('Sample (samples_array, sample_means, sample_means_and_95CIs, sample_quantiles, n_samples, dim, discrepancies), '
               'BolfiSample.__init__, gelman_rubin_statistic and eff_sample_size run on symbolic outputs / weights / chains; warm-up '
               'length, parameter order, affine maps and chain permutations are symbolic or solver-chosen; the FFT pair used by '
               'eff_sample_size is replaced by its algebraic contract (zero-padded autocorrelation sums).  Sample.save (csv, json, '
               'pkl) runs for Sample, SmcSample and BolfiSample objects with symbolic contents against recording serialisers.')
ASSUMPTIONS = [
    'exact reals; weights >= 0 with positive sum',
    'numpy.fft: irfft(|rfft(x, N)|^2)[k] = sum_t x_t x_{t+k} for N >= 2 len(x) (Wiener-Khinchin with zero padding)',
    'diagnostics: within-chain variance non-zero (otherwise the statistics divide by zero)',
    'saving: json.dumps writes dict/list/str/int/float/None so that json.loads returns equal values (finite floats round-trip '
    'through repr); csv.writer writes str() of each cell; pickle rebuilds an equal, unshared object graph through '
    '__getstate__/__setstate__ (these three contracts replace the C serialisers on symbolic paths)',
]
OUTSIDE = ['the text produced by json / csv / pickle themselves (C code): the symbolic claim is about the exact data handed to them '
           'by the real Sample.save / sample_object_to_dict / numpy_to_python_type / __getstate__ / __setstate__ code; the real '
           'serialisers are only run on the concrete witnesses and replays (text round trip compared there)',
           'multivariate parameters in csv', 'arviz conversion', 'chains longer than the bound']


def env(ctx):
    return patched(std_bindings([mres, mu], shadow_builtins=False))


def leq(a, b):
    if core.is_sym(a) or core.is_sym(b):
        return a <= b
    return float(a) <= float(b) + 1e-9 * max(1.0, abs(float(a)), abs(float(b)))


def quantile_def(ctx, tag, q, xs, ws, alpha):
    W = Sum(ws)
    ctx.claim(tag + '_in_sample', Or(*[close(q, x) for x in xs]))
    ctx.claim(tag + '_weight_le', leq(alpha * W, Sum([If(x <= q, w, 0) for x, w in zip(xs, ws)])))
    ctx.claim(tag + '_weight_lt', leq(Sum([If(x < q, w, 0) for x, w in zip(xs, ws)]), alpha * W))


def h_sample(ctx, n, with_weights, n_params=2):
    names = ['b', 'a', 'c']
    perms = list(itertools.permutations(names))
    pnames = list(perms[ctx.choice('param_order', len(perms))])[:n_params]
    vals = {k: [ctx.real('%s%d' % (k, i)) for i in range(n)] for k in names + ['d', 'extra']}
    ws = [ctx.real('w%d' % i, 0, None) for i in range(n)] if with_weights else None
    if ws:
        ctx.assume(Sum(ws) > 0)
    wl = ws if ws else [Fraction(1)] * n
    alpha = ctx.real('alpha', 0, 1)
    with env(ctx):
        s = mres.Sample(method_name='m', outputs={k: ctx.array(v) for k, v in vals.items()}, parameter_names=pnames,
                        discrepancy_name='d', weights=ctx.array(ws) if ws else None, n_sim=10, threshold=vals['d'][-1])
        arr = s.samples_array
        means = s.sample_means
        cis = s.sample_means_and_95CIs
        qs = s.sample_quantiles(alpha)
        marr = s.sample_means_array
    ctx.claim('n_samples_dim', s.n_samples == n and s.dim == len(pnames))
    ctx.claim('samples_array_shape', np.shape(arr) == (n, len(pnames)))
    for j, k in enumerate(pnames):
        ctx.claim('column_%d_is_parameter_%s' % (j, k), And(*[close(arr[i, j], vals[k][i]) for i in range(n)]))
        ref_mean = Sum([w * v for w, v in zip(wl, vals[k])]) / Sum(wl)
        ctx.claim('mean_%s_is_weighted_average' % k, close(means[k], ref_mean, 1e-7))
        ctx.claim('means_array_order_%d' % j, close(marr[j], ref_mean, 1e-7))
        ctx.claim('ci_mean_%s' % k, close(cis[k][0], ref_mean, 1e-7))
        quantile_def(ctx, 'ci_lo_%s' % k, cis[k][1], vals[k], wl, Fraction(25, 1000))
        quantile_def(ctx, 'ci_hi_%s' % k, cis[k][2], vals[k], wl, Fraction(975, 1000))
        quantile_def(ctx, 'quantile_%s' % k, qs[k], vals[k], wl, alpha)
        if j == 0 and False:
            pass
    ctx.claim('means_keys_in_parameter_order', list(means.keys()) == pnames and list(cis.keys()) == pnames)
    ctx.claim('discrepancies', And(*[close(a, b) for a, b in zip(s.discrepancies, vals['d'])]))
    ctx.claim('meta_access', s.n_sim == 10)


def h_bolfi_sample(ctx, c, n, p):
    chains = [[[ctx.real('x%d_%d_%d' % (ci, i, j)) for j in range(p)] for i in range(n)] for ci in range(c)]
    warmup = ctx.int('warmup', 0, n - 1)
    names = ['p%d' % j for j in range(p)]
    arr = ctx.array(chains)
    with env(ctx):
        s = mres.BolfiSample(method_name='BOLFI', chains=arr, parameter_names=names, warmup=warmup)
    wv = warmup if not ctx.symbolic else ctx.concretize(warmup.t)
    keep = n - wv
    ctx.claim('n_samples', s.n_samples == c * keep)
    for j, nm in enumerate(names):
        col = s.samples[nm]
        ctx.claim('length_%s' % nm, len(col) == c * keep)
        ctx.claim('column_%s_is_chains_concatenated_without_warmup' % nm,
                  And(*[close(col[ci * keep + i], chains[ci][wv + i][j]) for ci in range(c) for i in range(keep)]))
    ctx.claim('chains_kept_with_warmup', np.shape(s.chains) == (c, n, p) and s.n_chains == c)
    ctx.claim('input_not_aliased', s.chains is not arr)


# ---------------------------------------------------------------- saving

class Recorder:
    """Stands for the serialisers: records what Sample.save hands to json.dumps / csv.writer / pickle.dump."""

    def __init__(self):
        self.json = []
        self.csv_rows = []
        self.pickled = []
        self.opened = []
        self.written = []

    # open()
    def open(self, fname, mode='r', **kw):
        rec = self
        rec.opened.append((fname, mode))

        class F:
            def __enter__(s):
                return s

            def __exit__(s, *a):
                return False

            def write(s, data):
                rec.written.append(data)
        return F()

    def dumps(self, data, **kw):
        self.json.append(data)
        return '<json %d>' % (len(self.json) - 1)

    def writer(self, f, **kw):
        rec = self

        class W:
            def writerow(s, row):
                rec.csv_rows.append(list(row))

            def writerows(s, rows):
                for r in rows:
                    rec.csv_rows.append(list(r))
        return W()

    def dump(self, obj, f, protocol=None):
        self.pickled.append(obj)


def save_env(ctx, rec):
    import json
    import csv
    import pickle
    b = std_bindings([mres, mu], shadow_builtins=False)
    b.append((mres, {'open': rec.open}))
    b.append((json, {'dumps': rec.dumps}))
    b.append((csv, {'writer': rec.writer}))
    b.append((pickle, {'dump': rec.dump}))
    return patched(b)


def json_native(ctx, v):
    """Only what json can write: dict with str keys / list / str / int / float / bool / None (a proxy stands for a float)."""
    if core.is_sym(v):
        return True
    if isinstance(v, dict):
        return all(isinstance(k, str) and json_native(ctx, x) for k, x in v.items())
    if isinstance(v, (list, tuple)):
        return all(json_native(ctx, x) for x in v)
    if isinstance(v, (np.ndarray, np.integer)):
        return False
    return v is None or isinstance(v, (str, int, float, bool, Fraction))


def same_seq(a, b):
    a, b = list(a), list(b)
    return len(a) == len(b) and And(*[close(x, y, 0) for x, y in zip(a, b)])


def restore(v):
    """pickle's contract: an equal object graph that shares nothing with the original."""
    from collections import OrderedDict
    if isinstance(v, np.ndarray):
        return v.copy()
    if isinstance(v, OrderedDict):
        return OrderedDict((k, restore(x)) for k, x in v.items())
    if isinstance(v, dict):
        return {k: restore(x) for k, x in v.items()}
    if isinstance(v, list):
        return [restore(x) for x in v]
    if isinstance(v, tuple):
        return tuple(restore(x) for x in v)
    if isinstance(v, mres.ParameterInferenceResult):
        new = type(v).__new__(type(v))
        new.__setstate__(restore(v.__getstate__()))
        return new
    return v


def h_save(ctx, n, kind, cls='sample', n_params=2):
    names = ['b', 'a', 'c']
    perms = list(itertools.permutations(names))
    pnames = list(perms[ctx.choice('param_order', len(perms))])[:n_params]
    vals = {k: [ctx.real('%s%d' % (k, i)) for i in range(n)] for k in names + ['d']}
    ws = [ctx.real('w%d' % i, 0, None) for i in range(n)]
    thr = ctx.real('threshold')
    rec = Recorder()

    def mk(v, w, **kw):
        return dict(method_name='m', outputs={k: ctx.array(x) for k, x in v.items()}, parameter_names=list(pnames),
                    discrepancy_name='d', weights=ctx.array(w), n_sim=10 * n, threshold=thr, **kw)
    pops_vals = []
    with save_env(ctx, rec):
        if cls == 'sample':
            s = mres.Sample(**mk(vals, ws))
        elif cls == 'smc':
            pops = []
            for r in range(2):
                pv = {k: [ctx.real('pop%d_%s%d' % (r, k, i)) for i in range(n)] for k in names + ['d']}
                pw = [ctx.real('pop%d_w%d' % (r, i), 0, None) for i in range(n)]
                pops_vals.append((pv, pw))
                pops.append(mres.Sample(**mk(pv, pw)))
            s = mres.SmcSample(populations=pops, **mk(vals, ws))
        elif cls == 'bolfi':
            chains = [[[vals[k][i] for k in pnames] for i in range(n)] for _ in range(1)]
            s = mres.BolfiSample(method_name='BOLFI', chains=ctx.array(chains), parameter_names=list(pnames), warmup=0,
                                 threshold=thr, n_sim=10 * n)
        s.save('result.' + kind)
    ctx.claim('one_file_opened_for_writing', len(rec.opened) == 1 and rec.opened[0][0] == 'result.' + kind and
              rec.opened[0][1][0] == 'w')
    if kind == 'csv':
        rows = rec.csv_rows
        ctx.claim('csv_header_is_parameter_names_in_order', len(rows) >= 1 and list(rows[0]) == pnames)
        ctx.claim('csv_one_row_per_sample', len(rows) == n + 1)
        for i in range(min(n, len(rows) - 1)):
            ctx.claim('csv_row%d_is_sample_%d_in_parameter_order' % (i, i), same_seq(rows[i + 1], [vals[k][i] for k in pnames]))
        if not ctx.symbolic:
            # the real writer and reader on the recorded rows: text round trip
            import csv
            import io
            buf = io.StringIO()
            csv.writer(buf).writerows(rows)
            back = list(csv.reader(io.StringIO(buf.getvalue())))
            ctx.claim('csv_text_reads_back_to_the_same_numbers', back[0] == pnames and all(
                [float(c) for c in back[i + 1]] == [float(vals[k][i]) for k in pnames] for i in range(n)))
    elif kind == 'json':
        ctx.claim('one_document_written', len(rec.json) == 1 and rec.written == ['<json 0>'])
        data = rec.json[0] if rec.json else {}
        ctx.claim('json_document_holds_only_json_types', json_native(ctx, data))
        smp = data.get('samples', {})
        ctx.claim('json_samples_keys_are_parameter_names_in_order', list(smp.keys()) == pnames)
        for k in pnames:
            ctx.claim('json_samples_%s_are_the_stored_samples' % k, k in smp and same_seq(smp[k], vals[k]))
        if cls != 'bolfi':
            ctx.claim('json_discrepancies', same_seq(data.get('discrepancies', []), vals['d']))
            ctx.claim('json_weights', same_seq(data.get('weights', []), ws))
        ctx.claim('json_counts', data.get('n_samples') == n and data.get('dim') == len(pnames) and data.get('n_sim') == 10 * n)
        ctx.claim('json_threshold', 'threshold' in data and close(data['threshold'], thr, 0))
        ctx.claim('json_names', data.get('parameter_names') == pnames and data.get('method_name') == s.method_name)
        ctx.claim('json_outputs_not_duplicated', 'outputs' not in data)
        if cls == 'smc':
            pd = data.get('populations', {})
            ctx.claim('json_population_keys', list(pd.keys()) == ['A', 'B'])
            for key, (pv, pw) in zip(['A', 'B'], pops_vals):
                d = pd.get(key, {})
                for k in pnames:
                    ctx.claim('json_population_%s_samples_%s' % (key, k), same_seq(d.get('samples', {}).get(k, []), pv[k]))
                ctx.claim('json_population_%s_weights' % key, same_seq(d.get('weights', []), pw))
                ctx.claim('json_population_%s_sample_keys' % key, list(d.get('samples', {}).keys()) == pnames)
        if cls == 'bolfi':
            ctx.claim('json_chains', np.shape(np.asarray(data.get('chains'), dtype=object)) == (1, n, len(pnames)) and And(
                *[close(data['chains'][0][i][j], vals[k][i], 0) for i in range(n) for j, k in enumerate(pnames)]))
        if not ctx.symbolic:
            import json
            back = json.loads(json.JSONEncoder().encode(data))
            ctx.claim('json_text_reads_back_to_the_same_samples', list(back['samples'].keys()) == pnames and all(
                back['samples'][k] == [float(x) for x in vals[k]] for k in pnames))
    elif kind == 'pkl':
        ctx.claim('the_object_itself_is_pickled', len(rec.pickled) == 1 and rec.pickled[0] is s)
        new = restore(s)
        ctx.claim('restored_has_parameter_names', new.parameter_names == pnames and list(new.samples.keys()) == pnames)
        for k in pnames:
            ctx.claim('restored_samples_%s' % k, same_seq(new.samples[k], vals[k]) and new.samples[k] is not s.samples[k])
        ctx.claim('restored_weights_and_discrepancies', same_seq(new.weights, ws) and same_seq(new.discrepancies, vals['d']))
        ctx.claim('restored_meta', new.n_sim == 10 * n and close(new.threshold, thr, 0) and new.method_name == 'm')
        with env(ctx):
            ctx.claim('restored_array_equals', same_seq(np.asarray(new.samples_array).reshape(-1),
                                                        np.asarray(s.samples_array).reshape(-1)))
        if cls == 'smc':
            ctx.claim('restored_populations', len(new.populations) == 2 and all(
                same_seq(new.populations[r].samples[k], pops_vals[r][0][k]) for r in range(2) for k in pnames))
        if not ctx.symbolic:
            import pickle
            back = pickle.loads(pickle.dumps(s, pickle.HIGHEST_PROTOCOL))
            ctx.claim('real_pickle_round_trip', list(back.samples.keys()) == pnames and all(
                list(back.samples[k]) == list(s.samples[k]) for k in pnames) and back.n_sim == s.n_sim)


# ---------------------------------------------------------------- diagnostics

def ref_rhat_parts(chains):
    """Split R-hat squared as in BDA3 / Stan (chains split in halves) = num / den."""
    m, n = len(chains), len(chains[0])
    h = n // 2
    halves = []
    for ch in chains:
        halves.append(ch[:h])
        halves.append(ch[h:2 * h])
    M = len(halves)
    means = [Sum(x) / h for x in halves]
    gm = Sum(means) / M
    B = Fraction(h, M - 1) * Sum([(mu_ - gm) * (mu_ - gm) for mu_ in means])
    W = Sum([Sum([(v - mm) * (v - mm) for v in x]) / (h - 1) for x, mm in zip(halves, means)]) / M
    return Fraction(h - 1, h) * W + B / h, W


def h_rhat(ctx, c, n):
    chains = [[ctx.real('x%d_%d' % (ci, i)) for i in range(n)] for ci in range(c)]
    a = ctx.real('a')
    b = ctx.real('b')
    ctx.assume(Not(a == 0))
    num, W = ref_rhat_parts(chains)
    ctx.assume(W > 0)
    ctx.assume_nonzero_divisors = True
    perms = list(itertools.permutations(range(c)))
    perm = perms[ctx.choice('chain_perm', len(perms))]
    mapped = [[a * v + b for v in ch] for ch in chains]
    permuted = [chains[k] for k in perm]
    with patched(std_bindings([mcmc], shadow_builtins=False)):
        r = mcmc.gelman_rubin_statistic(ctx.array(chains))
        r_aff = mcmc.gelman_rubin_statistic(ctx.array(mapped))
        r_perm = mcmc.gelman_rubin_statistic(ctx.array(permuted))
    for nm, val in (('plain', r), ('affine', r_aff), ('permuted', r_perm)):
        if core._is_special(val):
            ctx.claim('rhat_%s_defined' % nm, False)
            return
    # the code against the textbook formula, on each of the three inputs
    num_a, W_a = ref_rhat_parts(mapped)
    num_p, W_p = ref_rhat_parts(permuted)
    ctx.claim('rhat_nonnegative', And(r >= 0, r_aff >= 0, r_perm >= 0))
    ctx.claim_poly('equals_split_formula', ctx.sqrt_arg(r) * W, num)
    ctx.claim_poly('equals_split_formula_on_mapped_chains', ctx.sqrt_arg(r_aff) * W_a, num_a)
    ctx.claim_poly('equals_split_formula_on_reordered_chains', ctx.sqrt_arg(r_perm) * W_p, num_p)
    # the formula is invariant (polynomial identities, cross-multiplied) => so is the code by the three claims above
    ctx.claim_poly('formula_invariant_under_affine_map', num_a * W, num * W_a)
    ctx.claim_poly('formula_invariant_under_chain_reordering', num_p * W, num * W_p)


class Spectrum:
    def __init__(self, x, N):
        self.x, self.N = x, N

    def __abs__(self):
        return self

    def __pow__(self, e):
        assert e == 2
        return PowerSpectrum(self.x, self.N)


class PowerSpectrum(Spectrum):
    pass


def fft_stub():
    def rfft(x, n=None, axis=-1):
        if core.symbolic_mode() and has_sym(x):
            return Spectrum(objarray(x), n)
        return np.fft.rfft(x, n, axis)

    def irfft(s, n=None, axis=-1):
        if isinstance(s, PowerSpectrum):
            x = s.x
            m, L = x.shape
            if s.N < 2 * L:
                raise core.Cut('padding shorter than 2n: circular correlation not modelled')
            out = np.empty((m, s.N), dtype=object)
            for ci in range(m):
                for k in range(s.N):
                    out[ci, k] = Sum([x[ci, t] * x[ci, t + k] for t in range(L - k)]) if k < L else core.SymX(core.realval(0))
            return out
        return np.fft.irfft(s, n, axis)
    return _Sub(np.fft, {'rfft': rfft, 'irfft': irfft})


def ref_ess(ctx, chains):
    """BDA3/Stan multi-chain ESS with the variogram-based autocorrelation, truncated at the first negative value."""
    m, n = len(chains), len(chains[0])
    means = [Sum(x) / n for x in chains]
    var = [Sum([(v - mm) * (v - mm) for v in x]) / (n - 1) for x, mm in zip(chains, means)]
    gm = Sum(means) / m
    B = 0 if m == 1 else Fraction(n, m - 1) * Sum([(mm - gm) * (mm - gm) for mm in means])
    W = Sum(var) / m
    vp = (Fraction(n - 1) * W + B) / n
    s = 0
    for lag in range(1, n):
        ac = Sum([Sum([(x[t] - mm) * (x[t + lag] - mm) for t in range(n - lag)]) / (n - lag) for x, mm in zip(chains, means)]) / m
        rho = 1 - (W - ac) / vp
        if bool(rho >= 0):
            s = s + rho
        else:
            break
    return Fraction(m * n) / (1 + 2 * s), W, vp


def h_ess(ctx, c, n, what):
    chains = [[ctx.real('x%d_%d' % (ci, i)) for i in range(n)] for ci in range(c)]
    ctx.assume_nonzero_divisors = True
    ref, W, vp = ref_ess(ctx, chains)
    ctx.assume(W > 0)
    fac = NPFacade(fft=fft_stub())
    with patched([(mcmc, {'np': fac})]):
        e = mcmc.eff_sample_size(ctx.array(chains) if c > 1 else ctx.array(chains[0]))
        if what == 'formula':
            ctx.claim_poly('equals_textbook_formula', e, ref)
        elif what == 'affine':
            a, b = ctx.real('a'), ctx.real('b')
            ctx.assume(Not(a == 0))
            e2 = mcmc.eff_sample_size(ctx.array([[a * v + b for v in ch] for ch in chains]))
            ctx.claim_poly('invariant_under_affine_map', e2, e)
        else:
            perm = list(itertools.permutations(range(c)))[ctx.choice('chain_perm', len(list(itertools.permutations(range(c)))))]
            e2 = mcmc.eff_sample_size(ctx.array([chains[k] for k in perm]))
            ctx.claim_poly('invariant_under_chain_reordering', e2, e)


HARNESSES = [
    H('sample_n2_weights', h_sample, dict(n=2, with_weights=True), bounds='n=2 samples, 2-3 parameters in any order, weights'),
    H('sample_n3_weights', h_sample, dict(n=3, with_weights=True), bounds='n=3 samples, weights', tiers=('thorough',)),
    H('sample_n3_noweights', h_sample, dict(n=3, with_weights=False), bounds='n=3 samples, weights=None', tiers=('thorough',)),
    H('sample_n2_noweights', h_sample, dict(n=2, with_weights=False), bounds='n=2 samples, weights=None'),
    H('bolfi_sample_c2_n3_p2', h_bolfi_sample, dict(c=2, n=3, p=2), bounds='2 chains x 3 x 2 parameters, warm-up symbolic in [0,2]'),
    H('bolfi_sample_c3_n4_p1', h_bolfi_sample, dict(c=3, n=4, p=1), bounds='3 chains x 4 x 1, warm-up symbolic in [0,3]'),
    H('rhat_c1_n4', h_rhat, dict(c=1, n=4), bounds='1 chain of 4'),
    H('rhat_c2_n4', h_rhat, dict(c=2, n=4), bounds='2 chains of 4'),
    H('rhat_c1_n5', h_rhat, dict(c=1, n=5), bounds='1 chain of 5 (odd: last draw dropped)'),
    H('rhat_c2_n5', h_rhat, dict(c=2, n=5), bounds='2 chains of 5 (odd: last draw of every chain dropped)',
      path_timeout=900),
    H('rhat_c3_n4', h_rhat, dict(c=3, n=4), bounds='3 chains of 4', tiers=('thorough',)),
    H('ess_formula_c1_n3', h_ess, dict(c=1, n=3, what='formula'), bounds='ESS formula, 1 chain of 3'),
    H('ess_formula_c1_n4', h_ess, dict(c=1, n=4, what='formula'), bounds='ESS formula, 1 chain of 4'),
    H('ess_formula_c2_n3', h_ess, dict(c=2, n=3, what='formula'), bounds='ESS formula, 2 chains of 3', tiers=('thorough',)),
    H('ess_permutation_c2_n3', h_ess, dict(c=2, n=3, what='perm'), bounds='ESS chain order, 2 chains of 3', tiers=('thorough',), path_timeout=900),
    H('ess_affine_c1_n3', h_ess, dict(c=1, n=3, what='affine'), bounds='ESS affine invariance, 1 chain of 3'),
    H('ess_affine_c2_n3', h_ess, dict(c=2, n=3, what='affine'), bounds='ESS affine invariance, 2 chains of 3', tiers=('thorough',), path_timeout=900),
    H('ess_formula_c2_n4', h_ess, dict(c=2, n=4, what='formula'), bounds='ESS formula, 2 chains of 4', tiers=('thorough',)),
]

HARNESSES += [
    H('save_csv_n3', h_save, dict(n=3, kind='csv'), bounds='Sample with 2 of 3 parameters in any order, 3 samples, csv'),
    H('save_json_n3', h_save, dict(n=3, kind='json'), bounds='Sample, 3 samples, weights, meta, json'),
    H('save_pkl_n3', h_save, dict(n=3, kind='pkl'), bounds='Sample, 3 samples, __getstate__/__setstate__'),
    H('save_json_smc_n2', h_save, dict(n=2, kind='json', cls='smc'), bounds='SmcSample with 2 populations of 2, json'),
    H('save_pkl_smc_n2', h_save, dict(n=2, kind='pkl', cls='smc'), bounds='SmcSample with 2 populations of 2, pickle state'),
    H('save_json_bolfi_n2', h_save, dict(n=2, kind='json', cls='bolfi'), bounds='BolfiSample 1 chain of 2, json'),
    H('save_csv_bolfi_n3_p3', h_save, dict(n=3, kind='csv', cls='bolfi', n_params=3), bounds='BolfiSample 1 chain of 3, 3 parameters, csv',
      tiers=('thorough',)),
    H('save_csv_n4_p3', h_save, dict(n=4, kind='csv', n_params=3), bounds='Sample, 3 parameters, 4 samples, csv', tiers=('thorough',)),
    H('save_json_n4_p3', h_save, dict(n=4, kind='json', n_params=3), bounds='Sample, 3 parameters, 4 samples, json', tiers=('thorough',)),
]

MANIFEST = {
    'level_text': 'Bounded symbolic execution of the real result and diagnostic code: columns follow parameter_names, means are the '
                  'weighted averages and interval ends / quantiles satisfy the weighted-quantile definition on exactly the stored '
                  'values; BolfiSample rows are the chains with exactly the warm-up prefix removed, chain by chain, for every '
                  'warm-up length; split R-hat and ESS equal their textbook formulas and are invariant under affine maps and chain '
                  'reordering (non-linear real arithmetic validity queries).  Saving: the csv rows, the json document and the '
                  'pickled state handed over by the real save code contain term-for-term the stored samples (weights, '
                  'discrepancies, threshold, populations, chains) in parameter order and only json-native types.',
    'level_note': 'n <= 3 samples, <= 3 chains of <= 4..5 draws; FFT replaced by its correlation contract; json/csv/pickle are replaced '
                  'by their contracts on symbolic paths (the real ones run on every concrete witness and replay); z3 trusted.',
}
