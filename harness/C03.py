"""C03 Compiled execution equals the dataflow meaning of the user's graph."""
import collections

import numpy as np

import elfi
import elfi.client
import elfi.model.elfi_model as em

from symx import core
from symx.core import And, Or, Not, Implies, close
from symx.explore import H
from harness.graphs import PROGRAMS, Built, Spec

PROPERTY = 'C03'
KINDS_TXT = 'Constant/Operation/Prior/Simulator/Summary/Discrepancy'
EXPLANATION = ('ElfiModel.generate (ClientBase.compile with its five compilers, load_data with its four loaders, '
               'Executor.execute / get_execution_order / _run) is executed on real models built from a program description; '
               'every operation is an uninterpreted function that records the keyword arguments it receives and how often it '
               'runs; constants, observations and supplied values are symbolic; the requested-output set and the with_values set '
               'are solver-chosen subsets. The reference is a 40-line denotational evaluator that reads the declared structure only.')
ASSUMPTIONS = [
    'operations are deterministic functions of the arguments they receive (uninterpreted)',
    'simulators carry observed data (an unobserved simulator is outside: its twin calls the user function without arguments)',
    'named edges are created with ElfiModel.add_edge(param_name=...); a discrepancy node and a prior (whose parents are the positional arguments of its distribution) have positional parents only',
    'main claim: a parent is connected to a child by at most one edge (complement: known finding C03/parent-connected-twice)',
    'values are scalars (the executor does not inspect them)',
]
OUTSIDE = ['graphs beyond the solver-chosen family (<= 3 nodes quick, 4 nodes thorough) and the curated programs (<= 6 nodes)', 'non-string node names',
           'remote clients (pickling)']


def bad_discrepancies(B):
    """Discrepancy nodes whose observed tuple depends on a stochastic non-observed node (declared structure)."""
    bad = []
    for name in B.order:
        s = B.specs[name]
        if s.kind != 'Discrepancy':
            continue
        st = B.denote([name], {}, 1)
        if st[0] == 'reject':
            bad.append(name)
    return bad


def h_generate(ctx, program, limit_given=None, specs=None, max_given=None, fixed_bs=None, only_last_output=False,
               flag_history=False):
    if specs is None:
        # curated program: one solver-chosen node that does not use meta may have had the flag switched on and off again
        specs = [sp.clone() for sp in PROGRAMS[program]]
        if flag_history:
            cands = [sp for sp in specs if sp.kind != 'Constant' and not sp.uses_meta]
            k = ctx.choice('meta_declared_then_withdrawn', len(cands) + 1)
            if k:
                cands[k - 1].meta_cleared = True
    B = Built(ctx, specs)
    names = B.order
    # solver-chosen request: which outputs, which nodes are supplied by the user
    outputs = names[-1:] if only_last_output else [n for n in names if ctx.flag('out_%s' % n)]
    if not outputs:
        raise core.Infeasible()
    supplied = {}
    for n in names[:limit_given] if limit_given else names:
        if max_given is not None and len(supplied) >= max_given:
            break
        if ctx.flag('given_%s' % n):
            supplied[n] = ctx.real('wv_%s' % n)
    bs = fixed_bs if fixed_bs else 1 + 2 * ctx.choice('bs_sel', 2)
    ctx.note('program=%s outputs=%s supplied=%s bs=%d' % (program, outputs, sorted(supplied), bs))
    den = B.denote(outputs, supplied, bs)
    raised = None
    res = None
    try:
        res = B.model.generate(bs, outputs, with_values=dict(supplied) if supplied else None, seed=3)
    except ValueError as e:
        raised = e
    bad = bad_discrepancies(B)
    if den[0] == 'reject':
        ctx.claim('graph_with_stochastic_observed_data_is_rejected', raised is not None)
        return
    if raised is not None:
        # rejecting is right only if some discrepancy of the model has stochastic observed data
        ctx.claim('rejected_only_if_some_observed_data_is_stochastic', len(bad) > 0)
        return
    _, want, calls = den
    ctx.claim('exactly_the_requested_outputs', sorted(res.keys()) == sorted(outputs))
    for o in outputs:
        ctx.claim('output_%s_is_its_dataflow_meaning' % o, close(res[o], want[o]))
    for n in names:
        s = B.specs[n]
        if s.kind == 'Constant':
            continue
        exp = calls.get(n, 0) + calls.get('_%s_observed' % n, 0)
        ctx.claim('operation_%s_runs_exactly_as_often_as_needed' % n, B.calls.get(n, 0) == exp)
        # keyword arguments: exactly the declared ones (twin executions get no batch_size/random_state/meta)
        expkw = set(s.named)
        if s.uses_batch_size:
            expkw |= {'batch_size'}
        if s.stochastic:
            expkw |= {'random_state'}
        if s.uses_meta:
            expkw |= {'meta'}
        if s.kind == 'Discrepancy':
            expkw |= {'observed'}
        twin_kw = set(s.named)
        ok = True
        n_real = calls.get(n, 0)
        logs = B.kwlog.get(n, [])
        ctx.claim('operation_%s_gets_exactly_its_declared_keywords' % n,
                  sorted(logs) == sorted([tuple(sorted(expkw))] * n_real +
                                         [tuple(sorted(twin_kw))] * calls.get('_%s_observed' % n, 0)))
        for md in B.meta_seen.get(n, []):
            ctx.claim('meta_of_%s' % n, md.get('batch_index') == 0 and md.get('master_seed') == 3 and
                      md.get('model_name') == B.model.name)
    # all stochastic nodes of the batch share one generator object
    gens = [g for n in names for g in B.rs_seen.get(n, [])]
    ctx.claim('one_generator_per_batch', all(g is gens[0] for g in gens))


FAMILY_NAMES = ('m', 'c', 'x', 'a')     # creation order is NOT alphabetical: sorting vs declaration order matters
FAMILY_KW = ('q', 'e', 'w')             # keyword of a named edge from node j (again not in creation order)


def family_program(ctx, n_nodes, last_kinds=None):
    """A solver-chosen program: kind of every node, every earlier node as no / positional / named parent, positional order
    (declared ascending or descending), observations, meta users.  Well-formedness as in ASSUMPTIONS."""
    from harness.graphs import KINDS
    specs = []
    for i in range(n_nodes):
        name = FAMILY_NAMES[i]
        kinds = KINDS if (last_kinds is None or i < n_nodes - 1) else last_kinds
        kind = kinds[ctx.choice('kind_%s' % name, len(kinds))]
        pos, named = [], {}
        if kind != 'Constant':
            for j in range(i):
                how = ctx.choice('edge_%s_%s' % (FAMILY_NAMES[j], name), 2 if kind in ('Discrepancy', 'Prior') else 3)
                if how == 1:
                    pos.append(FAMILY_NAMES[j])
                elif how == 2:
                    named[FAMILY_KW[j]] = FAMILY_NAMES[j]
            if len(pos) >= 2 and ctx.flag('positional_reversed_%s' % name):
                pos.reverse()
        if kind in ('Summary', 'Discrepancy') and not pos:
            raise core.Infeasible()        # the constructors of these classes demand at least one positional parent
        observed = kind == 'Simulator' or (kind == 'Summary' and ctx.flag('observed_%s' % name))
        # the last node: never a meta user / a meta user / declared one and withdrawn again (flag present but false)
        meta = ctx.choice('meta_%s' % name, 3) if (kind not in ('Constant', 'Prior') and i == n_nodes - 1) else 0
        sp = Spec(name, kind, pos, named, observed=observed, uses_meta=meta == 1)
        sp.meta_cleared = meta == 2
        specs.append(sp)
    return specs


def h_generate_family(ctx, n_nodes, max_given=1, last_kinds=None, fixed_bs=None, only_last_output=False):
    specs = family_program(ctx, n_nodes, last_kinds)
    ctx.note('program=%s' % specs)
    return h_generate(ctx, None, specs=specs, max_given=max_given, fixed_bs=fixed_bs, only_last_output=only_last_output)


def h_two_batches(ctx, program):
    """Two consecutive batches through one BatchHandler/context: the executor's cached order must not leak."""
    specs = PROGRAMS[program]
    B = Built(ctx, specs)
    names = B.order
    outputs = [n for n in names if ctx.flag('out_%s' % n)]
    if not outputs:
        raise core.Infeasible()
    den = B.denote(outputs, {}, 2)
    if den[0] == 'reject':
        raise core.Infeasible()
    # second batch: one node supplied through the handler's override mechanism
    given = [n for n in names if B.specs[n].kind != 'Constant' and ctx.flag('b1_given_%s' % n)]
    supplied = {n: ctx.real('wv_%s' % n) for n in given[:1]}
    context = em.ComputationContext(batch_size=2, seed=5)
    try:
        bh = elfi.client.BatchHandler(B.model, context=context, output_names=outputs)
    except ValueError:
        raise core.Infeasible()
    bh.submit()
    r0, i0 = bh.wait_next()
    c0 = collections.Counter(B.calls)
    try:
        bh.submit(dict(supplied))
    except KeyError:
        raise core.Infeasible()     # precondition: an overridden node is part of the compiled computation
    r1, i1 = bh.wait_next()
    c1 = collections.Counter(B.calls)
    c1.subtract(c0)
    _, want0, calls0 = den
    for o in outputs:
        ctx.claim('batch0_output_%s' % o, close(r0[o], want0[o]))
    den1 = B.denote(outputs, supplied, 2)
    _, want1, calls1 = den1
    for o in outputs:
        ctx.claim('batch1_output_%s' % o, close(r1[o], want1[o]))
    for n in names:
        if B.specs[n].kind == 'Constant':
            continue
        ctx.claim('batch0_calls_%s' % n, c0.get(n, 0) == calls0.get(n, 0) + calls0.get('_%s_observed' % n, 0))
        ctx.claim('batch1_calls_%s' % n, c1.get(n, 0) == calls1.get(n, 0) + calls1.get('_%s_observed' % n, 0))
    ctx.claim('indices', (i0, i1) == (0, 1))


HARNESSES = []
QUICK = ('disc_of_disc_stochastic', 'disc_of_disc_deterministic', 'chain', 'two_params_named', 'shared_constant', 'two_summaries', 'summary_of_prior', 'summary_mixes_prior',
         'dup_parent', 'dup_parent_named')
for pname in PROGRAMS:
    if pname in ('indep_priors', 'fork_sims', 'mini'):
        continue        # C02's programs
    if len(PROGRAMS[pname]) >= 6:
        HARNESSES.append(H('gen_' + pname + '_given_first3', h_generate, dict(program=pname, limit_given=3),
                           bounds='program %s: %s; every subset of requested outputs x every subset of the first 3 nodes supplied'
                                  % (pname, PROGRAMS[pname])))
    HARNESSES.append(H('gen_' + pname, h_generate, dict(program=pname),
                       tiers=('quick', 'thorough') if pname in QUICK else ('thorough',),
                       finding='C03/parent-connected-twice' if pname.startswith('dup_parent') else None,
                       finding_claims=('is_its_dataflow_meaning', 'gets_exactly_its_declared_keywords'), finding_errors=('TypeError',),
                       bounds='program %s: %s; every subset of requested outputs x every subset of supplied nodes x batch_size {1,3}'
                              % (pname, PROGRAMS[pname])))
for pname in ('chain', 'two_summaries', 'operation_between', 'two_sims'):
    HARNESSES.append(H('two_batches_' + pname, h_two_batches, dict(program=pname),
                       tiers=('quick', 'thorough') if pname in ('chain', 'two_summaries') else ('thorough',),
                       bounds='program %s, two consecutive batches on one context, second with one overridden node' % pname))

for pname in ('two_summaries', 'chain'):
    HARNESSES.append(H('gen_%s_flag_history' % pname, h_generate, dict(program=pname, flag_history=True, max_given=1, fixed_bs=3),
                       bounds='program %s; one solver-chosen node (or none) had uses_meta switched on and off again before use; '
                              'every subset of requested outputs, at most one supplied node, batch_size 3' % pname))
_FAM = ('EVERY program of %d nodes (names m, c, x, a created in that order): kind of each node in ' + KINDS_TXT + ', each earlier '
        'node no / positional / named parent (priors and discrepancies: positional only), positional order ascending or '
        'descending, observed summaries, last node optionally a meta user; ')
HARNESSES.append(H('gen_family_3nodes', h_generate_family, dict(n_nodes=3, max_given=0, fixed_bs=3), max_paths=400000,
                   bounds=_FAM % 3 + 'every non-empty subset of requested outputs, nothing supplied, batch_size 3'))
HARNESSES.append(H('gen_family_3nodes_one_supplied', h_generate_family, dict(n_nodes=3, max_given=1), tiers=('thorough',),
                   max_paths=3000000,
                   bounds=_FAM % 3 + 'every non-empty subset of requested outputs x at most one supplied node x batch_size {1,3}'))
HARNESSES.append(H('gen_family_4nodes_last_output', h_generate_family,
                   dict(n_nodes=4, last_kinds=('Summary', 'Discrepancy', 'Operation'), max_given=0, fixed_bs=1, only_last_output=True),
                   tiers=('thorough',), max_paths=3000000,
                   bounds=_FAM % 4 + 'last node a Summary, Discrepancy or Operation and the only requested output, batch_size 1'))

MANIFEST = {
    'level_text': 'Bounded symbolic execution of the real compile/load/execute pipeline on programs with uninterpreted operations: '
                  'for every constant/observation/supplied value, every subset of requested outputs and every subset of supplied '
                  'nodes of each listed program, each output equals the denotational meaning computed from the declared structure, '
                  'each operation receives exactly its declared keyword arguments and runs exactly as often as needed (0 when not '
                  'needed or supplied), and graphs with stochastic observed data are rejected (EUF validity queries per path).',
    'level_note': 'every program of 3 nodes (solver-chosen kinds, positional/named edges, positional order, observations, meta flag history; 4 nodes in the thorough tier) and 14 curated program shapes (<=6 user nodes: positional/named edges, shared constants, partial observations, '
                  'summary chains, two simulators, meta users), batch_size in {1,3}, two consecutive batches on one context for 4 '
                  'programs; scalar values; z3 trusted.',
}
