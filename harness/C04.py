"""C04 Sampler results do not depend on worker scheduling or parallelism."""
import numpy as np

import elfi
import elfi.client
import elfi.clients.native as native

from symx import core
from symx.core import And, Or, Not, Implies, Sum, If, close, count_true, INF
from symx.explore import H
from harness.abcworld import World
from harness.sched import SchedClient

PROPERTY = 'C04'
EXPLANATION = ('Rejection.sample and SMC.sample are executed twice on the same symbolic draws: once sequentially (native client, '
               'max_parallel_batches=1) and once on SchedClient, a client whose every is_ready() answer is a solver-chosen '
               'Boolean (monotone per task) with max_parallel_batches in {1,2,3}; the real infer/iterate/_allow_submit/'
               'BatchHandler/cancel_pending code decides what to submit, wait for and cancel.')
ASSUMPTIONS = [
    'node operations depend on (batch index, row) only, so the execution order of outstanding tasks is unobservable here '
    '(generator sharing between nodes is C02)',
    'a client answers is_ready monotonically per task and get_result blocks until the task is done (ClientBase contract)',
    'at most max_queries free is_ready answers per run, later ones are True',
    'values as in C01 (discrepancies finite or +inf, no NaN); region of known finding C01/inf-tie-placeholder excluded',
    'SMC: every non-final population has a non-zero proposal variance (identical particles make scipy raise in either run)',
]
OUTSIDE = ['real process pools (timing, pickling)', 'dask / ipyparallel clients', 'more batches than the bound (Cut)']


class use_client:
    def __init__(self, client):
        self.client = client

    def __enter__(self):
        self.old = elfi.client._client
        elfi.client.set_client(self.client)
        return self.client

    def __exit__(self, *a):
        elfi.client.set_client(self.old)
        return False


def monitor(inf, client, log):
    """Wrap update/submit to observe the protocol."""
    orig_update = inf.update
    bh = inf.batches
    orig_submit = bh.submit

    def update(batch, batch_index):
        log['updates'].append(batch_index)
        return orig_update(batch, batch_index)

    def submit(batch=None):
        r = orig_submit(batch)
        log['max_pending'] = max(log['max_pending'], bh.num_pending)
        return r
    inf.update = update
    bh.submit = submit


def h_rejection_sched(ctx, bs, n, mode, K, max_queries=6):
    w = World(ctx, bs, max_batches=K)
    kw = {}
    thr = None
    if mode == 'n_sim':
        kw['n_sim'] = ctx.int('n_sim', n, K * bs)
    elif mode == 'quantile':
        kw['quantile'] = ctx.real('quantile', 0, 1, lo_open=True)
    elif mode == 'threshold':
        thr = ctx.xreal('threshold', specials=(INF,))
        kw['threshold'] = thr
    nodes = ('t', 's', 'd')
    with w.env():
        # A: sequential reference
        with use_client(native.Client()):
            ra = elfi.Rejection(w.model['d'], batch_size=bs, seed=w.seed, output_names=['s'], max_parallel_batches=1)
            sa = ra.sample(n, bar=False, **kw)
        # region of the known C01 finding is outside this claim too (unfilled buffer rows are arbitrary values)
        rows = w.rows(list(range(sa.n_batches)))
        adm = [True if thr is None else (r[2]['d'] <= thr) for r in rows]
        fin = [not core._is_special(r[2]['d']) for r in rows]
        ctx.assume(count_true([And(a, f) for a, f in zip(adm, fin)]) >= n)
        # B: scheduled
        mp = 1 + ctx.choice('max_parallel_minus_1', 3)
        client = SchedClient(ctx, num_cores=mp, max_queries=max_queries)
        log = {'updates': [], 'max_pending': 0}
        with use_client(client):
            rb = elfi.Rejection(w.model['d'], batch_size=bs, seed=w.seed, output_names=['s'], max_parallel_batches=mp)
            monitor(rb, client, log)
            sb = rb.sample(n, bar=False, **kw)
    ctx.note('mode=%s max_parallel=%d queries=%d updates=%s submitted=%d' % (mode, mp, client.queries, log['updates'],
                                                                           len(client.submitted)))
    for k in nodes:
        ctx.claim('same_%s' % k, And(*[close(sa.outputs[k][j], sb.outputs[k][j]) for j in range(n)]) and
                  len(sa.outputs[k]) == len(sb.outputs[k]))
    ctx.claim('same_threshold', close(sa.threshold, sb.threshold))
    ctx.claim('same_n_sim', sa.n_sim == sb.n_sim)
    ctx.claim('same_n_batches', sa.n_batches == sb.n_batches)
    ctx.claim('batches_consumed_in_index_order_each_once', log['updates'] == list(range(len(log['updates']))))
    ctx.claim('never_more_than_max_parallel_outstanding', log['max_pending'] <= mp and client.max_outstanding <= mp)
    ctx.claim('no_protocol_error(cancelled_result_used/double_fetch)', client.errors == [])
    ctx.claim('no_task_left_in_client', len(client.tasks) == 0)
    ctx.claim('every_submitted_task_fetched_or_removed',
              set(client.submitted) == set(client.fetched) | client.removed and not (set(client.fetched) & client.removed))
    # a cancelled batch is never computed (its operations never ran)
    ctx.claim('operations_ran_once_per_consumed_batch_in_B',
              all(w.calls[(nd, b)] == 2 for nd in ('t', 's', 'd') for b in range(sb.n_batches)) and
              all(w.calls[(nd, b)] == 0 for nd in ('t', 's', 'd') for b in range(sb.n_batches, K)))


def mk(name, **p):
    tiers = p.pop('tiers', ('quick', 'thorough'))
    b = 'batch_size=%d n_samples=%d mode=%s <=%d batches, max_parallel in {1,2,3}, <=%d free is_ready answers' % (
        p['bs'], p['n'], p['mode'], p['K'], p.get('max_queries', 6))
    return H(name, h_rejection_sched, p, tiers=tiers, bounds=b)


HARNESSES = [
    mk('rej_nsim_bs1_n1', bs=1, n=1, mode='n_sim', K=3),
    mk('rej_nsim_bs2_n2', bs=2, n=2, mode='n_sim', K=2),
    mk('rej_quantile_bs1_n1', bs=1, n=1, mode='quantile', K=3),
    mk('rej_threshold_bs1_n1', bs=1, n=1, mode='threshold', K=4),
    mk('rej_threshold_bs2_n1', bs=2, n=1, mode='threshold', K=3),
    mk('rej_threshold_bs1_n2', bs=1, n=2, mode='threshold', K=4, tiers=('thorough',)),
    mk('rej_threshold_bs2_n2', bs=2, n=2, mode='threshold', K=3, tiers=('thorough',)),
    mk('rej_nsim_bs1_n2_K4', bs=1, n=2, mode='n_sim', K=4, max_queries=8, tiers=('thorough',)),
]

MANIFEST = {
    'level_text': 'Bounded symbolic execution of the real inference loop against a client whose readiness answers are symbolic: '
                  'for every answer sequence (within the query bound), every max_parallel_batches in {1,2,3} and every value of '
                  'the simulated draws, the scheduled run returns term-for-term the outputs, threshold, n_sim and n_batches of '
                  'the sequential run, consumes batches in index order once, never exceeds max_parallel outstanding tasks, never '
                  'fetches a cancelled task and leaves no task behind (SMT validity queries per path, exhaustive decision tree).',
    'level_note': 'SchedClient replaces the worker pool (contract: monotone is_ready, blocking get_result); node operations are '
                  'pure functions of (batch,row); <=4 batches, <=6..8 free readiness answers; quantile- and threshold-driven 2-round SMC; every script of <=5 (7) submit/wait_next/cancel_pending/reset operations on the real BatchHandler with the sub-seed of every batch observed; real multiprocessing timing and '
                  'pickling are outside. z3 trusted.',
}


# ---------------------------------------------------------------- multi-round SMC under a symbolic schedule

def h_smc_sched(ctx, bs, n, rounds, K, max_queries=3, mode='thresholds'):
    """SMC (thresholds or quantiles) sequentially on the native client vs on SchedClient with max_parallel in {2,3}."""
    import elfi.methods.utils as mu
    from symx.npfacade import patched
    from harness.C07 import smc_env
    w = World(ctx, bs, max_batches=K, d_specials=(), bounded_prior=False)
    if mode == 'thresholds':
        kw = dict(thresholds=[ctx.real('thr%d' % r) for r in range(rounds)])
    else:
        kw = dict(quantiles=[ctx.real('q%d' % r, 0, 1, lo_open=True) for r in range(rounds)])
    trials = [0]

    def bounded(smc):
        orig_prepare = smc.prepare_new_batch

        def prepare_new_batch(batch_index):
            if batch_index >= K:
                raise core.Cut('more than %d batches' % K)
            return orig_prepare(batch_index)
        smc.prepare_new_batch = prepare_new_batch
    with w.env(), patched(smc_env(w)):
        with use_client(native.Client()):
            a = elfi.SMC(w.model['d'], batch_size=bs, seed=w.seed, max_parallel_batches=1)
            bounded(a)
            ra = a.sample(n, bar=False, **{k: list(v) for k, v in kw.items()})
        # non-degenerate populations (identical particles give a singular proposal covariance: scipy raises)
        for pop in ra.populations[:-1]:
            ctx.assume(np.asarray(pop.cov, dtype=object).reshape(-1)[0] > 0)
        mp = 2 + ctx.choice('max_parallel_minus_2', 2)
        client = SchedClient(ctx, num_cores=mp, max_queries=max_queries)
        log = {'updates': [], 'max_pending': 0}
        with use_client(client):
            b = elfi.SMC(w.model['d'], batch_size=bs, seed=w.seed, max_parallel_batches=mp)
            bounded(b)
            monitor(b, client, log)
            rb = b.sample(n, bar=False, **{k: list(v) for k, v in kw.items()})
    ctx.note('max_parallel=%d queries=%d updates=%s submitted=%d' % (mp, client.queries, log['updates'], len(client.submitted)))
    ctx.claim('same_number_of_populations', len(ra.populations) == len(rb.populations) == rounds)
    for r, (pa, pb) in enumerate(zip(ra.populations, rb.populations)):
        for k in ('t', 'd'):
            ctx.claim('round%d_same_%s' % (r, k), And(*[close(pa.outputs[k][j], pb.outputs[k][j]) for j in range(n)]))
        ctx.claim('round%d_same_weights' % r, And(*[close(x, y) for x, y in zip(pa.weights, pb.weights)]))
        ctx.claim('round%d_same_threshold_and_counts' % r,
                  And(close(pa.threshold, pb.threshold), pa.n_sim == pb.n_sim, pa.n_batches == pb.n_batches))
    ctx.claim('same_total_n_sim', ra.n_sim == rb.n_sim)
    ctx.claim('batches_consumed_in_index_order_each_once', log['updates'] == list(range(len(log['updates']))))
    ctx.claim('never_more_than_max_parallel_outstanding', log['max_pending'] <= mp and client.max_outstanding <= mp)
    ctx.claim('no_protocol_error(cancelled_result_used/double_fetch)', client.errors == [])
    ctx.claim('no_task_left_in_client', len(client.tasks) == 0)


HARNESSES += [
    H('smc_thr_bs2_n2_r2', h_smc_sched, dict(bs=2, n=2, rounds=2, K=2), path_timeout=300,
      bounds='SMC thresholds, 2 rounds, batch_size 2, n=2, <=2 submitted batch indices, max_parallel in {2,3}, <=3 free is_ready answers'),
    H('smc_thr_bs1_n2_r2', h_smc_sched, dict(bs=1, n=2, rounds=2, K=4, max_queries=4), path_timeout=300, tiers=('thorough',),
      bounds='SMC thresholds, 2 rounds, batch_size 1, n=2, <=4 consumed batches, max_parallel in {2,3}, <=4 free answers'),
    H('smc_q_bs2_n2_r2', h_smc_sched, dict(bs=2, n=2, rounds=2, K=2, mode='quantiles'), path_timeout=300,
      bounds='SMC quantiles (threshold of round 2 = weighted quantile of population 1), 2 rounds, batch_size 2, n=2, <=2 consumed '
             'batches, max_parallel in {2,3}, <=3 free is_ready answers'),
    H('smc_q_bs1_n2_r2', h_smc_sched, dict(bs=1, n=2, rounds=2, K=4, max_queries=4, mode='quantiles'), path_timeout=300,
      tiers=('thorough',),
      bounds='SMC quantiles, 2 rounds, batch_size 1, n=2, <=4 consumed batches, max_parallel in {2,3}, <=4 free answers'),
]


# ---------------------------------------------------------------- BatchHandler protocol under solver-chosen scripts

def h_batch_handler_script(ctx, n_ops, K=5):
    """submit / wait_next / cancel_pending / reset in any order on the real BatchHandler + loaders + sub-seed cache: every
    batch is consumed with the values of its own index, whatever was submitted, cancelled and rewound before."""
    import elfi.model.elfi_model as em
    w = World(ctx, 1, max_batches=K, d_specials=())
    ops = ('submit', 'wait_next', 'cancel_pending', 'reset')
    script = []
    with w.env():
        client = SchedClient(ctx, num_cores=2, always_ready=True)
        context = em.ComputationContext(batch_size=1, seed=w.seed)
        bh = elfi.client.BatchHandler(w.model, context=context, output_names=['t', 'd'], client=client)
        nxt, pending = 0, []
        for k in range(n_ops):
            op = ops[ctx.choice('op%d' % k, len(ops))]
            script.append(op)
            if op == 'submit':
                if nxt >= K:
                    raise core.Infeasible()
                bh.submit()              # (a wrong generator seed for this index raises SubSeedMismatch in the loader)
                pending.append(nxt)
                nxt += 1
            elif op == 'wait_next':
                if not pending:
                    raise core.Infeasible()
                batch, bi = bh.wait_next()
                want = pending.pop(0)
                ctx.claim('op%d_oldest_pending_index_is_returned' % k, bi == want)
                ctx.claim('op%d_batch_has_the_values_of_its_index' % k, And(
                    close(batch['t'][0], w.values[('t', want)][0]), close(batch['d'][0], w.values[('d', want)][0])))
            elif op == 'cancel_pending':
                bh.cancel_pending()
                if pending:
                    nxt = pending[0]
                pending = []
            else:
                bh.reset()
                nxt, pending = 0, []
            ctx.claim('op%d_counters' % k, bh.next_index == nxt and bh.num_pending == len(pending) and
                      list(bh.pending_indices) == pending and len(client.tasks) == len(pending))
    ctx.note('script=%s' % script)
    ctx.claim('no_protocol_error', client.errors == [])


HARNESSES += [
    H('batch_handler_script5', h_batch_handler_script, dict(n_ops=5), bounds='every script of 5 operations from submit / wait_next / '
      'cancel_pending / reset on one BatchHandler (batch_size 1, <=5 batch indices)'),
    H('batch_handler_script7', h_batch_handler_script, dict(n_ops=7, K=6), tiers=('thorough',),
      bounds='every script of 7 operations (<=6 batch indices)'),
]
