"""C10 BOLFI posterior matches its definition; the fast GP path equals the GP."""
import math
from fractions import Fraction

import numpy as np

import elfi.methods.posteriors as post
import elfi.methods.bo.gpy_regression as gpr

from symx import core
from symx.core import And, Or, Not, Implies, Sum, If, close, SymX, INF
from symx.explore import H
from symx.npfacade import patched, std_bindings, NPFacade, _Sub, sym_float, has_sym, objarray
from symx.stubs import SSFacade

PROPERTY = 'C10'
EXPLANATION = ('BolfiPosterior (logpdf, gradient_logpdf, _unnormalized_loglikelihood, _gradient_unnormalized_loglikelihood, '
               '_within_bounds) runs on symbolic query points / bounds / threshold over a surrogate whose predictions are '
               'uninterpreted functions MU, V>0, DMU, DV; GPyRegression.predict / predictive_gradients (accelerated path, '
               '_cache_RBF_kernel) and update run on a stand-in for the fitted GPy model with symbolic evidence, kernel variance, '
               'lengthscale, bias, noise and Woodbury quantities, and are compared with the textbook GP posterior.')
ASSUMPTIONS = [
    'scipy.stats.norm.pdf/cdf(x, loc, scale) are NPDF/PHI of (x-loc)/scale (uninterpreted; 0<PHI<1, NPDF>0), logpdf/logcdf their logarithms',
    'GPy contract: posterior.woodbury_vector = (K + noise I)^-1 Y, woodbury_inv = (K + noise I)^-1, woodbury_chol lower triangular '
    'with chol chol^T = K + noise I; kern = RBF(variance, lengthscale) + Bias; the "textbook" formulas are stated for these quantities',
    'numpy.linalg.solve with a lower-triangular matrix is forward substitution',
    'exp uninterpreted (arguments compared as polynomials first, then the code\'s own exp values are reused); exact reals',
    'prior log-density and its gradient uninterpreted',
]
OUTSIDE = ['GPy internals and hyper-parameter optimisation', 'that the GPy slow path equals the textbook (checked numerically once on '
           'the replay, not by the solver)', 'dimension > 2, more than 2 evidence points', 'threshold=None (optimiser)']


# ---------------------------------------------------------------- posterior over a UF surrogate

class Surrogate:
    def __init__(self, ctx, dim, bounds):
        self.ctx, self.input_dim, self.bounds = ctx, dim, bounds
        self.calls = []

    def _rows(self, x):
        x = np.asarray(x, dtype=object if self.ctx.symbolic else float).reshape(-1, self.input_dim)
        return [list(r) for r in x]

    def predict(self, x, noiseless=False):
        ctx = self.ctx
        rows = self._rows(x)
        self.calls.append(rows)
        mu = [ctx.apply_uf('MU%d' % self.input_dim, r) for r in rows]
        v = [ctx.apply_uf('V%d' % self.input_dim, r) for r in rows]
        if ctx.symbolic:
            for t in v:
                ctx._fact(t.t > 0)
        else:
            v = [abs(t) + 0.1 for t in v]
        return ctx.array([[m] for m in mu]), ctx.array([[t] for t in v])

    def predictive_gradients(self, x):
        ctx = self.ctx
        rows = self._rows(x)
        gm = [[ctx.apply_uf('DMU%d_%d' % (self.input_dim, i), r) for i in range(self.input_dim)] for r in rows]
        gv = [[ctx.apply_uf('DV%d_%d' % (self.input_dim, i), r) for i in range(self.input_dim)] for r in rows]
        return ctx.array(gm), ctx.array(gv)


class PriorStub:
    def __init__(self, ctx, dim):
        self.ctx, self.dim = ctx, dim

    def logpdf(self, x):
        ctx = self.ctx
        x = np.asarray(x, dtype=object if ctx.symbolic else float)
        nd = x.ndim
        rows = [list(r) for r in x.reshape(-1, self.dim)]
        out = ctx.array([ctx.apply_uf('LOGPRIOR%d' % self.dim, r) for r in rows])
        return out[0] if (nd == 0 or (nd == 1 and self.dim > 1)) else out

    def gradient_logpdf(self, x):
        ctx = self.ctx
        x = np.asarray(x, dtype=object if ctx.symbolic else float)
        nd = x.ndim
        rows = [list(r) for r in x.reshape(-1, self.dim)]
        out = ctx.array([[ctx.apply_uf('DLOGPRIOR%d_%d' % (self.dim, i), r) for i in range(self.dim)] for r in rows])
        return out[0] if (nd == 0 or (nd == 1 and self.dim > 1)) else out


def post_env(ctx):
    if not ctx.symbolic:
        return patched([])
    return patched([(post, {'np': NPFacade(), 'ss': SSFacade()})])


def mk_query(ctx, dim, xform):
    if xform == 'scalar':
        pts = [[ctx.real('x0')]]
        return pts[0][0], pts
    if xform == '1d':
        if dim == 1:
            pts = [[ctx.real('x%d' % i)] for i in range(2)]
            return ctx.array([p[0] for p in pts]), pts
        pts = [[ctx.real('x0_%d' % c) for c in range(dim)]]
        return ctx.array(pts[0]), pts
    pts = [[ctx.real('x%d_%d' % (i, c)) for c in range(dim)] for i in range(2)]
    return ctx.array(pts), pts


def h_posterior(ctx, dim, xform, tail=False):
    bounds = [(ctx.real('lo%d' % i), ctx.real('hi%d' % i)) for i in range(dim)]
    for lo, hi in bounds:
        ctx.assume(lo < hi)
    h = ctx.real('threshold')
    x, pts = mk_query(ctx, dim, xform)
    ctx.assume_nonzero_divisors = True
    with post_env(ctx):
        model = Surrogate(ctx, dim, bounds)
        prior = PriorStub(ctx, dim)
        bp = post.BolfiPosterior(model, threshold=h, prior=prior)
        lp = bp.logpdf(x)
        g = bp.gradient_logpdf(x)
    scalar_out = xform == 'scalar' or (xform == '1d' and dim > 1)
    lpv = [lp] if scalar_out else list(lp)
    gv = [list(np.reshape(g, -1))] if scalar_out else [list(r) for r in np.reshape(g, (len(pts), dim))]
    ctx.claim('logpdf_shape', (np.ndim(lp) == 0) if scalar_out else (np.shape(lp) == (len(pts),)))
    ctx.claim('gradient_shape', np.shape(g) == ((dim,) if scalar_out else (len(pts), dim)))
    for r, p in enumerate(pts):
        inside = And(*[And(p[i] >= bounds[i][0], p[i] <= bounds[i][1]) for i in range(dim)])
        mu = ctx.apply_uf('MU%d' % dim, p)
        v = ctx.apply_uf('V%d' % dim, p)
        if not ctx.symbolic:
            v = abs(v) + 0.1
        lprior = ctx.apply_uf('LOGPRIOR%d' % dim, p)
        if core._is_special(lpv[r]) or (not ctx.symbolic and lpv[r] == -INF):
            ctx.claim('row%d_minus_inf_iff_outside_bounds' % r, And(lpv[r] == -INF, Not(inside)))
            ctx.claim('row%d_gradient_outside_is_prior_gradient' % r,
                      And(*[close(gv[r][i], ctx.apply_uf('DLOGPRIOR%d_%d' % (dim, i), p)) for i in range(dim)]))
            continue
        ctx.claim('row%d_finite_iff_inside_bounds' % r, inside)
        if tail and ctx.symbolic:
            # far lower tail of Phi: in exact arithmetic nothing is special here, but this is where IEEE doubles
            # underflow (Phi(z) = 0 below z = -38.5); the models of this region are run by the concrete twin
            ctx.assume(And(inside, v >= 1, v <= 4, (h - mu) < -120, (h - mu) > -400))
        if ctx.symbolic:
            sd = ctx.uf_sqrt(v)
            z = (h - mu) / sd
            ctx.claim('row%d_logpdf_is_logPhi_of_standardised_threshold_plus_log_prior' % r,
                      lpv[r] == ctx.uf_log(ctx.apply_uf('PHI', [z])) + lprior)
            phi, Phi = ctx.apply_uf('NPDF', [z]), ctx.apply_uf('PHI', [z])
            for i in range(dim):
                dmu, dv = ctx.apply_uf('DMU%d_%d' % (dim, i), p), ctx.apply_uf('DV%d_%d' % (dim, i), p)
                # derivative of (h - mu)/sqrt(v) by the chain rule
                dz = -dmu / sd - (h - mu) * dv / (2 * sd * sd * sd)
                want = phi / Phi * dz + ctx.apply_uf('DLOGPRIOR%d_%d' % (dim, i), p)
                ctx.claim_poly('row%d_gradient_%d_is_derivative_of_the_log_density' % (r, i), gv[r][i], want)
        else:
            import scipy.stats as ss
            sd = math.sqrt(v)
            z = (h - mu) / sd
            ctx.claim('row%d_logpdf_is_logPhi_of_standardised_threshold_plus_log_prior' % r,
                      close(lpv[r], ss.norm.logcdf(z) + lprior, 1e-6))
            for i in range(dim):
                dmu, dv = ctx.apply_uf('DMU%d_%d' % (dim, i), p), ctx.apply_uf('DV%d_%d' % (dim, i), p)
                dz = -dmu / sd - (h - mu) * dv / (2 * sd ** 3)
                ctx.claim('row%d_gradient_%d_is_derivative_of_the_log_density' % (r, i),
                          close(gv[r][i], math.exp(ss.norm.logpdf(z) - ss.norm.logcdf(z)) * dz +
                                ctx.apply_uf('DLOGPRIOR%d_%d' % (dim, i), p), 1e-5))


# ---------------------------------------------------------------- fast GP path

class Param(np.ndarray):
    """GPy Param stand-in: an array of shape (1,)."""


def param(ctx, v):
    a = np.empty(1, dtype=object if ctx.symbolic else float)
    a[0] = v
    return a


class FakeGP:
    def __init__(self, ctx, n, d, tag=''):
        self.ctx = ctx
        X = [[ctx.real('X%d_%d' % (j, c)) for c in range(d)] for j in range(n)]
        Y = [[ctx.real('Y%d' % j)] for j in range(n)]
        self.Xl, self.Yl = X, Y
        self.X, self.Y = ctx.array(X), ctx.array(Y)
        self.var = ctx.real('kern_variance' + tag, 0, None, lo_open=True)
        self.ls = ctx.real('lengthscale' + tag, 0, None, lo_open=True)
        self.bias = ctx.real('bias' + tag, 0, None)
        self.noise = ctx.real('noise' + tag, 0, None, lo_open=True)
        self.num_data = n
        gp = self

        class Rbf:
            variance = param(ctx, gp.var)
            lengthscale = param(ctx, gp.ls)

        class Bias:
            @staticmethod
            def K(X):
                a = np.empty((len(X), len(X)), dtype=object if ctx.symbolic else float)
                a.fill(gp.bias)
                return a

        class Kern:
            rbf = Rbf()
            bias = Bias()

            def copy(self):
                return self

        class Lik:
            variance = param(ctx, gp.noise)
        self.kern = Kern()
        self.likelihood = Lik()
        self.Gaussian_noise = Lik()
        self.mean_function = None
        # Woodbury quantities: lower-triangular L (positive diagonal), W = L L^T, Winv = W^-1, wv = Winv Y
        L = [[(ctx.real('L%d%d%s' % (a, b, tag), 0, None, lo_open=True) if a == b else
               (ctx.real('L%d%d%s' % (a, b, tag)) if b < a else 0)) for b in range(n)] for a in range(n)]
        self.L = L
        self.W = [[Sum([L[a][k] * L[b][k] for k in range(n)]) for b in range(n)] for a in range(n)]
        if n == 1:
            Winv = [[1 / self.W[0][0]]]
        else:
            det = self.W[0][0] * self.W[1][1] - self.W[0][1] * self.W[1][0]
            Winv = [[self.W[1][1] / det, -self.W[0][1] / det], [-self.W[1][0] / det, self.W[0][0] / det]]
        self.Winv = Winv
        wv = [[Sum([Winv[a][b] * Y[b][0] for b in range(n)])] for a in range(n)]
        self.wv = wv

        class Posterior:
            woodbury_vector = ctx.array(wv)
            woodbury_inv = ctx.array(Winv)
            woodbury_chol = ctx.array([[L[a][b] if b <= a else (SymX(core.realval(0)) if ctx.symbolic else 0.0) for b in range(n)]
                                       for a in range(n)])
        self.posterior = Posterior()

    # slow path of the library (not compared here): placeholders of the right shape
    def predict_noiseless(self, x):
        return np.zeros((len(x), 1)), np.ones((len(x), 1))

    predict = predict_noiseless


def gp_env(ctx):
    def solve(A, B):
        if not (ctx.symbolic and (has_sym(A) or has_sym(B))):
            return np.linalg.solve(A, B)
        A, B = objarray(A), objarray(B)
        n = A.shape[0]
        B2 = B.reshape(n, -1)
        Z = np.empty(B2.shape, dtype=object)
        for c in range(B2.shape[1]):
            for i in range(n):         # forward substitution (A lower triangular)
                Z[i, c] = (B2[i, c] - Sum([A[i, k] * Z[k, c] for k in range(i)])) / A[i, i]
        return Z.reshape(B.shape)
    if not ctx.symbolic:
        return patched([])
    fac = NPFacade(linalg=_Sub(np.linalg, {'solve': solve}))
    return patched([(gpr, {'np': fac, 'float': sym_float})])


def mk_reg(ctx, n, d):
    reg = gpr.GPyRegression.__new__(gpr.GPyRegression)
    reg.input_dim = d
    reg.bounds = [(-1, 1)] * d
    reg.gp_params = {}
    reg._gp = FakeGP(ctx, n, d)
    reg._rbf_is_cached = False
    reg.is_sampling = True
    reg._kernel_is_default = True
    return reg


def h_fast_gp(ctx, n, d):
    ctx.assume_nonzero_divisors = True
    with gp_env(ctx):
        reg = mk_reg(ctx, n, d)
        gp = reg._gp
        x = [ctx.real('q%d' % c) for c in range(d)]
        mu, var = reg.predict(ctx.array([x]))
        gmu, gvar = reg.predictive_gradients(ctx.array([x]))
    textbook_claims(ctx, '', gp, n, d, x, mu, var, gmu, gvar)


def textbook_claims(ctx, tag, gp, n, d, x, mu, var, gmu, gvar):
    ctx.claim(tag + 'shapes', np.shape(mu) == (1, 1) and np.shape(var) == (1, 1) and np.shape(gmu) == (1, d) and np.shape(gvar) == (1, d))
    # kernel values k(x, X_j) = variance * exp(-|x - X_j|^2 / (2 l^2)) + bias
    ref_args = [-Sum([(x[c] - gp.Xl[j][c]) * (x[c] - gp.Xl[j][c]) for c in range(d)]) / (2 * gp.ls * gp.ls) for j in range(n)]
    if ctx.symbolic:
        apps = ctx.uf_apps.get('EXP', [])
        E = []
        for j in range(n):
            hit = None
            for a, r in apps:
                nl, dl = core._ratfun(core._simp(a))
                nr, dr = core._ratfun(core._simp(core.rterm(ref_args[j])))
                dd = core.z3.simplify(nl * dr - nr * dl, som=True, som_blowup=10000000)
                if core.z3.is_rational_value(dd) and dd.numerator_as_long() == 0:
                    hit = SymX(r)
                    break
            ctx.claim(tag + 'kernel_exponent_%d_is_minus_squared_distance_over_2l2' % j, hit is not None)
            if hit is None:
                return
            E.append(hit)
    else:
        E = [math.exp(a) for a in ref_args]
    k = [gp.var * E[j] + gp.bias for j in range(n)]
    mean_ref = Sum([k[j] * gp.wv[j][0] for j in range(n)])
    var_ref = gp.var + gp.bias - Sum([k[a] * gp.Winv[a][b] * k[b] for a in range(n) for b in range(n)]) + gp.noise
    ctx.claim_poly(tag + 'mean_is_k_times_woodbury_vector', mu[0, 0], mean_ref)
    ctx.claim_poly(tag + 'variance_is_prior_minus_explained_plus_noise', var[0, 0], var_ref)
    for c in range(d):
        dk = [gp.var * E[j] * (-(x[c] - gp.Xl[j][c]) / (gp.ls * gp.ls)) for j in range(n)]
        ctx.claim_poly(tag + 'gradient_of_mean_%d' % c, gmu[0, c], Sum([dk[j] * gp.wv[j][0] for j in range(n)]))
        ctx.claim_poly(tag + 'gradient_of_variance_%d' % c, gvar[0, c],
                       -2 * Sum([dk[a] * gp.Winv[a][b] * k[b] for a in range(n) for b in range(n)]))




def h_fast_gp_history(ctx, n, d):
    """Sampling phase, back to fitting (one ordinary prediction), hyper-parameters re-optimised, second sampling phase:
    the accelerated path must describe the GP with the NEW hyper-parameters."""
    ctx.assume_nonzero_divisors = True
    with gp_env(ctx):
        reg = mk_reg(ctx, n, d)
        gpA = reg._gp
        gpB = FakeGP(ctx, n, d, tag='_new')
        gpA.optimize = lambda *a, **k: setattr(reg, '_gp', gpB)
        reg.optimizer, reg.max_opt_iters = 'scg', 10
        x = [ctx.real('q%d' % c) for c in range(d)]
        xa = ctx.array([x])
        reg.predict(xa)                      # first sampling phase (caches)
        reg.predictive_gradients(xa)
        reg.is_sampling = False
        reg.predict(xa)                      # ordinary use between the phases
        reg.optimize()
        reg.is_sampling = True
        if ctx.symbolic:
            del ctx.uf_apps['EXP'][:]        # only the exponentials of the second phase are matched below
        mu, var = reg.predict(xa)
        gmu, gvar = reg.predictive_gradients(xa)
    textbook_claims(ctx, 'after_reoptimisation_', gpB, n, d, x, mu, var, gmu, gvar)


def h_update(ctx, n, d, m):
    made = []
    with gp_env(ctx):
        reg = mk_reg(ctx, n, d)
        reg.is_sampling = False
        old = reg._gp
        reg._make_gpy_instance = lambda x, y, kernel, noise_var, mean_function: made.append((x, y, kernel, noise_var, mean_function)) or old
        xn = [[ctx.real('newx%d_%d' % (j, c)) for c in range(d)] for j in range(m)]
        yn = [ctx.real('newy%d' % j) for j in range(m)]
        reg.update(ctx.array(xn), ctx.array(yn))
    ctx.claim('one_refit', len(made) == 1)
    X, Y, kernel, noise_var, mf = made[0]
    ctx.claim('evidence_shapes', np.shape(X) == (n + m, d) and np.shape(Y) == (n + m, 1))
    allx = old.Xl + xn
    ally = [r[0] for r in old.Yl] + yn
    ctx.claim('earlier_evidence_unchanged_and_in_order_then_the_new_points',
              And(*[close(X[j, c], allx[j][c]) for j in range(n + m) for c in range(d)],
                  *[close(Y[j, 0], ally[j]) for j in range(n + m)]))
    ctx.claim('noise_and_kernel_carried_over', close(noise_var, old.noise) and kernel is old.kern and mf is None)


HARNESSES = [
    H('posterior_d1_scalar', h_posterior, dict(dim=1, xform='scalar'), bounds='dim 1, scalar query'),
    H('posterior_d1_scalar_far_tail', h_posterior, dict(dim=1, xform='scalar', tail=True),
      bounds='dim 1, scalar query inside the bounds with (threshold - mean)/sd in (-400, -30): the region where Phi underflows '
             'in doubles (decided symbolically over the reals; its models are run on the real code in floats)'),
    H('posterior_d1_1d', h_posterior, dict(dim=1, xform='1d'), bounds='dim 1, two query points'),
    H('posterior_d2_1d', h_posterior, dict(dim=2, xform='1d'), bounds='dim 2, one query point (1-D input)'),
    H('posterior_d2_2d', h_posterior, dict(dim=2, xform='2d'), bounds='dim 2, two query points', tiers=('thorough',)),
    H('fast_gp_n1_d1', h_fast_gp, dict(n=1, d=1), bounds='1 evidence point, dim 1'),
    H('fast_gp_n2_d1', h_fast_gp, dict(n=2, d=1), bounds='2 evidence points, dim 1'),
    H('fast_gp_n2_d2', h_fast_gp, dict(n=2, d=2), bounds='2 evidence points, dim 2', path_timeout=600),
    H('fast_gp_history_n1_d1', h_fast_gp_history, dict(n=1, d=1),
      bounds='sampling, ordinary prediction, re-optimised hyper-parameters, sampling again; 1 evidence point, dim 1'),
    H('fast_gp_history_n2_d1', h_fast_gp_history, dict(n=2, d=1), bounds='same history, 2 evidence points', tiers=('thorough',)),
    H('update_n2_d2_m1', h_update, dict(n=2, d=2, m=1), bounds='2 old + 1 new evidence, dim 2'),
    H('update_n1_d1_m2', h_update, dict(n=1, d=1, m=2), bounds='1 old + 2 new evidence, dim 1'),
]

for _h in HARNESSES:
    if _h.name.endswith('_far_tail'):
        _h.float_region = True       # the concrete twin's verdict on the region's models is part of the check

MANIFEST = {
    'level_text': 'Bounded symbolic execution of the real posterior and surrogate code: inside the bounds (boundary included) the '
                  'log density is log PHI((h - MU)/sqrt(V)) + log prior, outside -inf, shapes follow the input, and the gradient equals '
                  'the chain-rule derivative (identity of rational functions in MU, V, DMU, DV, PHI, NPDF and sqrt(V)); the '
                  'accelerated single-point prediction equals the textbook GP posterior mean, variance and their gradients for an '
                  'RBF+bias kernel (exponents proved equal as polynomials, then identities in the code\'s own exp values); update() '
                  'keeps earlier evidence unchanged and in order.',
    'level_note': 'dim <= 2, <= 2 query points, <= 2 evidence points; normal cdf/pdf, exp, prior uninterpreted; the fitted GPy '
                  'object is a stand-in that satisfies the stated Woodbury relations (the comparison fast path vs GPy slow path '
                  'itself is numerical only); threshold given explicitly; one float-region harness ((h-MU)/sd in (-400,-30)) whose models are run on the real code in doubles.',
}
