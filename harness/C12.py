"""C12 Distance nodes compute the stated metric; adaptive scales ignore batching."""
from functools import partial
from fractions import Fraction

import numpy as np
import scipy
import scipy.spatial.distance as ssd

import elfi
import elfi.model.elfi_model as em
import elfi.model.utils as emu

from symx import core
from symx.core import And, Or, Not, Implies, Sum, If, close
from symx.explore import H
from symx.npfacade import patched, std_bindings, NPFacade, _Sub, has_sym, objarray

PROPERTY = 'C12'
EXPLANATION = ('elfi.Distance / elfi.AdaptiveDistance nodes are built on a real ElfiModel and evaluated through the real '
               'compile/load/execute pipeline (node.generate(with_values=...)) on symbolic summary batches; '
               'AdaptiveDistance.add_data is driven with every composition of N rows into batches.')
ASSUMPTIONS = [
    'scipy.spatial.distance.cdist(XA, XB, metric, **kw)[i, j] is the documented formula for euclidean (with optional w), '
    'and an uninterpreted function METRIC_<name>(row, observed, kwargs) for the other metrics (so the claim is about which '
    'rows / observed values / keyword arguments reach the metric, for every metric)',
    'exact real arithmetic; sqrt(x) is the s >= 0 with s*s = x',
    'adaptive distance: every summary column has non-zero variance over the adaptation data (otherwise the scale is 0)',
]
OUTSIDE = ['scipy\'s implementation of each metric', 'more than 3 summaries / width > 2 / batch > 3',
           'Rejection._update_distances re-sort (see C01)']


def _absx(v):
    return abs(v)


def cdist_stub(XA, XB, metric='euclidean', **kw):
    """cdist on symbolic data; returns object array (len(XA), len(XB))."""
    if not (core.symbolic_mode() and (has_sym(XA) or has_sym(XB) or any(has_sym(v) for v in kw.values()))):
        return ssd.cdist(XA, XB, metric=metric, **kw)
    ctx = core.cur()
    XA = objarray(XA)
    XB = objarray(XB)
    if XA.ndim != 2 or XB.ndim != 2:
        raise ValueError('XA and XB must be 2-dimensional arrays.')
    if XA.shape[1] != XB.shape[1]:
        raise ValueError('XA and XB must have the same number of columns (i.e. feature dimension.)')
    out = np.empty((XA.shape[0], XB.shape[0]), dtype=object)
    w = kw.get('w', None)
    if w is not None:
        w = list(objarray(w).reshape(-1))
        if len(w) != XA.shape[1]:
            raise ValueError('Weights must have same size as input vector.')
    for i in range(XA.shape[0]):
        for j in range(XB.shape[0]):
            u, v = list(XA[i]), list(XB[j])
            if metric == 'euclidean':
                s = Sum([(wk if w is not None else 1) * (a - b) * (a - b)
                         for a, b, wk in zip(u, v, w or [1] * len(u))])
                out[i, j] = s.sqrt() if isinstance(s, core.SymX) else s ** 0.5
            else:
                extra = []
                for k in sorted(kw):
                    val = kw[k]
                    extra.extend(list(objarray(val).reshape(-1)) if not np.isscalar(val) or has_sym(val) else [val])
                out[i, j] = ctx.apply_uf('METRIC_%s_%s' % (metric, '_'.join(sorted(kw))), u + v + extra)
    return out


class _ScipyFacade(_Sub):
    def __init__(self):
        dist = _Sub(ssd, {'cdist': cdist_stub})
        spatial = _Sub(scipy.spatial, {'distance': dist})
        super().__init__(scipy, {'spatial': spatial})


def env(ctx):
    b = std_bindings([em, emu], shadow_builtins=False)
    if ctx.symbolic:
        b.append((em, {'scipy': _ScipyFacade()}))
    return patched(b)


def pick(cols, scalar, x):
    """Summary operation: selects columns of the simulator output."""
    if scalar:
        return x[:, cols[0]]
    return x[:, cols]


def build(ctx, layout, batch, obs_rows=1):
    """layout: list of summary widths (0 = scalar summary of shape (batch,)).  Returns model pieces."""
    m_total = sum(max(1, w) for w in layout)
    X = [[ctx.real('x%d_%d' % (i, c)) for c in range(m_total)] for i in range(batch)]
    obs = [ctx.real('o%d' % c) for c in range(m_total)]
    m = elfi.ElfiModel()
    sim = elfi.Simulator(lambda batch_size=1, random_state=None: None, observed=ctx.array([obs]), model=m, name='sim')
    S = []
    col = 0
    for j, w in enumerate(layout):
        cols = list(range(col, col + max(1, w)))
        col += max(1, w)
        S.append(elfi.Summary(partial(pick, cols, w == 0), sim, model=m, name='S%d' % j))
    return m, sim, S, X, obs


def metric_ref(ctx, metric, kw, row, obs):
    if ctx.symbolic:
        if metric == 'euclidean':
            w = kw.get('w')
            s = Sum([(w[k] if w is not None else 1) * (row[k] - obs[k]) * (row[k] - obs[k]) for k in range(len(row))])
            return ('sq', s)
        extra = []
        for k in sorted(kw):
            val = kw[k]
            extra.extend(list(val) if isinstance(val, (list, np.ndarray)) else [val])
        return ('val', ctx.apply_uf('METRIC_%s_%s' % (metric, '_'.join(sorted(kw))), list(row) + list(obs) + extra))
    kw2 = {k: (np.array(v, dtype=float) if isinstance(v, list) else v) for k, v in kw.items()}
    return ('val', float(ssd.cdist(np.array([row], dtype=float), np.array([obs], dtype=float), metric=metric, **kw2)[0, 0]))


def eq_metric(ctx, got, ref):
    kind, val = ref
    if kind == 'sq':
        return And(got >= 0, got * got == val)
    return close(got, val, 1e-7)


# string metrics of scipy.spatial.distance.cdist and the extra arguments their scipy signature accepts
METRIC_KW = [
    ('euclidean', ('none', 'w')), ('sqeuclidean', ('none', 'w')), ('cityblock', ('none', 'w')), ('chebyshev', ('none', 'w')),
    ('canberra', ('none', 'w')), ('braycurtis', ('none', 'w')), ('cosine', ('none', 'w')), ('correlation', ('none', 'w')),
    ('minkowski', ('none', 'p1', 'p3', 'p2w', 'w')), ('seuclidean', ('V',)), ('mahalanobis', ('VI',)),
]


def h_metric_matrix(ctx, layout, batch):
    """Metric and extra arguments solver-chosen over the whole table above: the node must hand exactly the user's extra
    arguments to the chosen metric (every non-euclidean metric is an uninterpreted function of rows AND extra arguments)."""
    m_total = sum(max(1, w) for w in layout)
    metric, forms = METRIC_KW[ctx.choice('metric', len(METRIC_KW))]
    kwform = forms[ctx.choice('extra_arguments', len(forms))]
    kw = {}
    pos = lambda n: [ctx.real('%s%d' % (n, c), 0, None, lo_open=True) for c in range(m_total)]     # noqa: E731
    if kwform in ('w', 'p2w'):
        kw['w'] = pos('w')
    if kwform.startswith('p'):
        kw['p'] = int(kwform[1])
    if kwform == 'V':
        kw['V'] = pos('V')
    if kwform == 'VI':
        # a symmetric positive definite matrix: diagonal + one shared off-diagonal value below the smallest diagonal entry
        dg = pos('VI')
        off = ctx.real('VIoff', 0, None)
        for v in dg:
            ctx.assume(off < v / m_total)
        kw['VI'] = [[dg[a] if a == b else off for b in range(m_total)] for a in range(m_total)]
    ctx.note('metric=%s extra=%s' % (metric, sorted(kw)))
    with env(ctx):
        m, sim, S, X, obs = build(ctx, layout, batch)
        kwn = {k: (ctx.array(v) if isinstance(v, list) else v) for k, v in kw.items()}
        d = elfi.Distance(metric, *S, model=m, name='d', **kwn)
        out = d.generate(batch, with_values={'sim': ctx.array(X)})
    ctx.claim('one_value_per_row', getattr(out, 'shape', None) == (batch,))
    kwref = dict(kw)
    if 'VI' in kwref:
        kwref['VI'] = [v for r in kw['VI'] for v in r] if ctx.symbolic else kw['VI']
    for i in range(batch):
        if metric == 'euclidean' and ctx.symbolic:
            ref = metric_ref(ctx, metric, kw, X[i], obs)
        else:
            ref = metric_ref(ctx, metric, kwref, X[i], obs)
        ctx.claim('row_%d_is_the_chosen_metric_with_the_given_extra_arguments' % i, eq_metric(ctx, out[i], ref))


def h_distance(ctx, metric, layout, batch, kwform=None):
    m_total = sum(max(1, w) for w in layout)
    kw = {}
    if kwform == 'p1':
        kw = {'p': 1}
    elif kwform == 'p2w':
        kw = {'p': 2, 'w': [ctx.real('w%d' % c, 0, None, lo_open=True) for c in range(m_total)]}
    elif kwform == 'w':
        kw = {'w': [ctx.real('w%d' % c, 0, None, lo_open=True) for c in range(m_total)]}
    elif kwform == 'V':
        kw = {'V': [ctx.real('V%d' % c, 0, None, lo_open=True) for c in range(m_total)]}
    with env(ctx):
        m, sim, S, X, obs = build(ctx, layout, batch)
        kwn = {k: (ctx.array(v) if isinstance(v, list) else v) for k, v in kw.items()}
        d = elfi.Distance(metric, *S, model=m, name='d', **kwn)
        out = d.generate(batch, with_values={'sim': ctx.array(X)})
    ctx.claim('one_value_per_row', getattr(out, 'shape', None) == (batch,))
    for i in range(batch):
        ctx.output('d%d' % i, out[i])
        ctx.claim('row_%d_is_metric_of_stacked_row_and_observed' % i,
                  eq_metric(ctx, out[i], metric_ref(ctx, metric, kw, X[i], obs)))


def h_distance_callable(ctx, layout, batch):
    """A user callable distance(X, Y) receives the column-stacked batch and the 1 x m observed row."""
    seen = {}

    def dist(XA, XB):
        seen['XA'] = XA
        seen['XB'] = XB
        return np.zeros((len(XA), 1)) if not ctx.symbolic else objarray([[Fraction(0)]] * len(XA))
    with env(ctx):
        m, sim, S, X, obs = build(ctx, layout, batch)
        d = elfi.Distance(dist, *S, model=m, name='d')
        out = d.generate(batch, with_values={'sim': ctx.array(X)})
    XA, XB = seen['XA'], seen['XB']
    ctx.claim('XA_shape', XA.shape == (batch, len(obs)))
    ctx.claim('XB_shape', XB.shape == (1, len(obs)))
    ctx.claim('XA_rows', And(*[XA[i, c] == X[i][c] for i in range(batch) for c in range(len(obs))]))
    ctx.claim('XB_row', And(*[XB[0, c] == obs[c] for c in range(len(obs))]))
    ctx.claim('result_flattened', out.shape == (batch,))


def compositions(n):
    if n == 0:
        yield ()
        return
    for first in range(1, n + 1):
        for rest in compositions(n - first):
            yield (first,) + rest


def h_adaptive_scale(ctx, N, layout):
    """scale**2 == population variance of all N rows for every composition of N into add_data calls."""
    m_total = sum(max(1, w) for w in layout)
    comps = list(compositions(N))
    ci = ctx.choice('composition', len(comps))
    comp = comps[ci]
    ctx.note('composition=%s' % (comp,))
    with env(ctx):
        m, sim, S, X, obs = build(ctx, layout, N)
        d = elfi.AdaptiveDistance(*S, model=m, name='d')
        d.init_adaptation_round()
        pos = 0
        for b in comp:
            rows = X[pos:pos + b]
            pos += b
            data = []
            col = 0
            for w in layout:
                cols = list(range(col, col + max(1, w)))
                col += max(1, w)
                arr = ctx.array([[r[c] for c in cols] for r in rows])
                data.append(arr[:, 0] if w == 0 else arr)
            d.add_data(*data)
        scale = d.state['scale']
        m2n = d.state['store'][2] / d.state['store'][0]
    ctx.claim('scale_shape', np.shape(scale) == (m_total,))
    ctx.claim('count', d.state['store'][0] == N)
    for c in range(m_total):
        mean = Sum([X[i][c] for i in range(N)]) / N
        var = Sum([(X[i][c] - mean) * (X[i][c] - mean) for i in range(N)]) / N
        s = scale[c]
        ctx.output('scale%d' % c, s)
        # split in two so that the polynomial identity is decided without the square-root constant
        ctx.claim_poly('accumulated_M2_over_n_%d_is_population_variance' % c, m2n[c], var)
        if core._is_special(s):
            ctx.claim('scale_%d_is_sqrt_of_M2_over_n' % c, False)
        else:
            ctx.claim('scale_%d_is_sqrt_of_M2_over_n' % c, And(s >= 0, close(s * s, m2n[c], 1e-7)))


def h_adaptive_update(ctx, N, layout, batch, rounds=1):
    m_total = sum(max(1, w) for w in layout)
    with env(ctx):
        m, sim, S, X, obs = build(ctx, layout, batch)
        d = elfi.AdaptiveDistance(*S, model=m, name='d')
        before = d.generate(batch, with_values={'sim': ctx.array(X)})
        scales = []
        outs = [before]
        for r in range(rounds):
            A = [[ctx.real('a%d_%d_%d' % (r, i, c)) for c in range(m_total)] for i in range(N)]
            d.init_adaptation_round()
            data = []
            col = 0
            for w in layout:
                cols = list(range(col, col + max(1, w)))
                col += max(1, w)
                arr = ctx.array([[row[c] for c in cols] for row in A])
                data.append(arr[:, 0] if w == 0 else arr)
            d.add_data(*data)
            # non-degenerate adaptation data, stated on the code's own scale (== population sd by h_adaptive_scale)
            for sc in d.state['scale']:
                ctx.assume(sc > 0)
            scales.append(list(d.state['scale']))
            d.update_distance()
            outs.append(d.generate(batch, with_values={'sim': ctx.array(X)}))
        wlist = d.state['w']
    ctx.claim('initial_distance_shape', np.shape(before) == (batch,))
    for i in range(batch):
        ctx.claim('initial_distance_is_euclidean_%d' % i,
                  eq_metric(ctx, before[i], metric_ref(ctx, 'euclidean', {}, X[i], obs)))
    for r in range(rounds):
        out = outs[r + 1]
        ctx.claim('round%d_shape' % r, np.shape(out) == (batch, r + 2))
        sc = scales[r]   # the code's own scale; scale**2 == population variance is h_adaptive_scale's claim
        for i in range(batch):
            newest = out[i, r + 1]
            ref = Sum([((X[i][c] - obs[c]) / sc[c]) * ((X[i][c] - obs[c]) / sc[c]) for c in range(m_total)])
            ctx.claim('round%d_newest_is_scaled_euclidean_%d' % (r, i), And(newest >= 0, close(newest * newest, ref, 1e-7)))
            for k in range(r + 1):
                prev = outs[r][i] if r == 0 else outs[r][i, k]
                ctx.claim('round%d_earlier_column_%d_unchanged_%d' % (r, k, i), close(out[i, k], prev))
        wl = wlist[r + 1]
        ctx.claim('round%d_weights_are_inverse_scale' % r,
                  And(*[And(wl[c] > 0, close(wl[c] * sc[c], 1, 1e-7)) for c in range(m_total)]))
    ctx.claim('first_weight_entry_is_None', wlist[0] is None)


HARNESSES = [
    H('euclid_scalar_b1', h_distance, dict(metric='euclidean', layout=[0], batch=1), bounds='1 scalar summary, batch 1'),
    H('euclid_scalar2_b2', h_distance, dict(metric='euclidean', layout=[0, 0], batch=2), bounds='2 scalar summaries, batch 2'),
    H('euclid_vec_b2', h_distance, dict(metric='euclidean', layout=[2], batch=2), bounds='1 summary of width 2, batch 2'),
    H('euclid_mixed_b3', h_distance, dict(metric='euclidean', layout=[0, 2], batch=3), bounds='scalar + width-2, batch 3'),
    H('euclid_mixed_b1', h_distance, dict(metric='euclidean', layout=[2, 0, 1], batch=1), bounds='widths 2,scalar,1; batch 1'),
    H('euclid_w', h_distance, dict(metric='euclidean', layout=[0, 2], batch=2, kwform='w'), bounds='weighted euclidean'),
    H('cityblock', h_distance, dict(metric='cityblock', layout=[0, 2], batch=2), bounds='cityblock (UF), scalar+width-2'),
    H('minkowski_p1', h_distance, dict(metric='minkowski', layout=[0, 0], batch=2, kwform='p1'), bounds='minkowski p=1'),
    H('minkowski_p2w', h_distance, dict(metric='minkowski', layout=[2], batch=2, kwform='p2w'), bounds='minkowski p=2, w'),
    H('seuclidean_V', h_distance, dict(metric='seuclidean', layout=[0, 0], batch=2, kwform='V'), bounds='seuclidean V'),
    H('chebyshev_b1', h_distance, dict(metric='chebyshev', layout=[0, 0, 0], batch=1), bounds='3 scalar summaries, batch 1'),
    H('metric_matrix_b2', h_metric_matrix, dict(layout=[0, 2], batch=2),
      bounds='metric x extra arguments solver-chosen over 11 string metrics and the arguments scipy accepts for each (none / w / '
             'p / p+w / V / VI); scalar + width-2 summary, batch 2'),
    H('callable', h_distance_callable, dict(layout=[0, 2], batch=2), bounds='callable distance, scalar+width-2, batch 2'),
    H('adaptive_scale_N4', h_adaptive_scale, dict(N=4, layout=[0, 0]), bounds='N=4 rows, 2 scalar summaries, all 8 compositions'),
    H('adaptive_scale_N5_vec', h_adaptive_scale, dict(N=5, layout=[2]), bounds='N=5, width-2 summary, all 16 compositions'),
    H('adaptive_scale_N6', h_adaptive_scale, dict(N=6, layout=[0, 2]), bounds='N=6, scalar+width-2, all 32 compositions',
      tiers=('thorough',)),
    H('adaptive_update_r1', h_adaptive_update, dict(N=3, layout=[0, 0], batch=2, rounds=1),
      bounds='adaptation data N=3, 2 scalar summaries, batch 2, 1 update'),
    H('adaptive_update_r2', h_adaptive_update, dict(N=2, layout=[0, 0], batch=1, rounds=2),
      bounds='N=2, 2 scalar summaries, batch 1, 2 updates'),
    H('adaptive_update_r2_vec', h_adaptive_update, dict(N=3, layout=[2, 0], batch=2, rounds=2),
      bounds='N=3, width-2 + scalar, batch 2, 2 updates', tiers=('thorough',)),
]

MANIFEST = {
    'level_text': 'Bounded symbolic execution of real Distance/AdaptiveDistance nodes through the real compile/load/execute '
                  'pipeline: per output row an SMT validity query that it equals the metric of exactly that stacked row and the '
                  'stacked observed values with the keyword arguments; Welford scale equals the population variance for every '
                  'composition of the data into add_data calls (compositions enumerated by a solver-chosen index, values '
                  'symbolic).',
    'level_note': 'cdist is a stub: documented euclidean formula, uninterpreted function for other metrics; exact reals; '
                  'batch<=3, <=3 summaries, width<=2, N<=5 (quick) / 6 (thorough) adaptation rows, <=2 update rounds; '
                  'non-degenerate adaptation data assumed. z3 trusted.',
}
