"""C20 BSL: synthetic likelihood and its Metropolis-Hastings step are the stated ones."""
import math
from fractions import Fraction

import numpy as np
import scipy.stats as _ss

import elfi.methods.bsl.pdf_methods as pm
import elfi.methods.bsl.cov_warton as cw
import elfi.methods.inference.bsl as bsl

from symx import core
from symx.core import And, Or, Not, Implies, Sum, If, close, SymX, INF
from symx.explore import H
from symx.npfacade import patched, std_bindings, NPFacade, _Sub, has_sym, objarray, SymMath
from symx.stubs import SSFacade

PROPERTY = 'C20'
EXPLANATION = ('gaussian_syn_likelihood (plain, whitened, Warton shrinkage), gaussian_syn_likelihood_ghurye_olkin, '
               'syn_likelihood_misspec, cov_warton and BSL._para_logit_transform / _para_logit_back_transform / '
               '_jacobian_logit_transform / _get_mh_ratio / _init_round / _process_simulated run on symbolic summary matrices, '
               'observed vectors, whitening matrices, penalties, bounds, chain states and draws; the multivariate normal '
               'log-density, slogdet and exp/log are uninterpreted, and the arguments that reach them are compared with '
               'independently computed sample moments / formulas.')
ASSUMPTIONS = [
    'scipy multivariate_normal.logpdf(x, mean, cov) and numpy slogdet are deterministic functions of their arguments '
    '(uninterpreted); loggamma and math.log of concrete numbers are evaluated by the real libraries',
    'exp/log uninterpreted with exp(log y) = y, log(exp y) = y, the product rule for logarithms (used by the harness\' normaliser), '
    'monotonicity and positivity; exact reals; parameters strictly inside their bounds',
    'no division by zero on a run (covariances non-degenerate)',
]
OUTSIDE = ['glasso shrinkage (sklearn graphical_lasso)', 'the semi-parametric (KDE / copula) likelihood', 'gamma slice samplers',
           'more than 4 simulations x 2 summaries']


class MVNLog:
    calls = []


class _MVNRec:
    """multivariate_normal.logpdf recorder: value = MVNLOGPDF_d(x, mean, cov)."""

    def logpdf(self, x, mean=None, cov=1, **kw):
        ctx = core.cur()
        if not (ctx.symbolic and (has_sym(x) or has_sym(mean) or has_sym(cov))):
            MVNLog.calls.append((np.atleast_1d(x), np.atleast_1d(mean), np.atleast_2d(cov)))
            return _ss.multivariate_normal.logpdf(x, mean=mean, cov=cov, **kw)
        x, mean, cov = np.atleast_1d(objarray(x)), np.atleast_1d(objarray(mean)), np.atleast_2d(objarray(cov))
        MVNLog.calls.append((x, mean, cov))
        return ctx.apply_uf('MVNLOGPDF%d' % len(mean), list(x) + list(mean) + list(cov.reshape(-1)))


class SlogLog:
    calls = []


def env(ctx):
    MVNLog.calls = []
    SlogLog.calls = []

    def slogdet(A):
        if np.ndim(A) < 2:
            raise np.linalg.LinAlgError('%d-dimensional array given. Array must be at least two-dimensional' % np.ndim(A))
        SlogLog.calls.append(objarray(A) if ctx.symbolic else np.asarray(A))
        if ctx.symbolic and has_sym(A):
            return 1.0, ctx.apply_uf('SLOGDET%d' % len(A), list(objarray(A).reshape(-1)))
        return np.linalg.slogdet(A)
    fac = NPFacade(linalg=_Sub(np.linalg, {'slogdet': slogdet}))
    ssf = _Sub(_ss, {'multivariate_normal': _MVNRec()})
    if not ctx.symbolic:
        return patched([(pm, {'ss': ssf, 'np': _Sub(np, {'linalg': _Sub(np.linalg, {'slogdet': slogdet})})})])
    return patched([(pm, {'np': fac, 'ss': ssf, 'math': SymMath()}), (cw, {'np': fac}), (bsl, {'np': fac})])


def moments(ssx, n, d):
    mean = [Sum([ssx[i][j] for i in range(n)]) / n for j in range(d)]
    cov = [[Sum([(ssx[i][j] - mean[j]) * (ssx[i][k] - mean[k]) for i in range(n)]) / (n - 1) for k in range(d)] for j in range(d)]
    return mean, cov


def poly_all(ctx, name, got, want):
    got, want = list(np.reshape(got, -1)), list(np.reshape(np.array(want, dtype=object), -1))
    ok = len(got) == len(want)
    ctx.claim(name + '_size', ok)
    for k, (g, w) in enumerate(zip(got, want)):
        ctx.claim_poly('%s_%d' % (name, k), g, w)


def h_standard(ctx, n, d, whiten, warton):
    ctx.assume_nonzero_divisors = True
    ssx = [[ctx.real('x%d_%d' % (i, j)) for j in range(d)] for i in range(n)]
    ssy = [ctx.real('y%d' % j) for j in range(d)]
    W = [[ctx.real('w%d%d' % (a, b)) for b in range(d)] for a in range(d)] if whiten else None
    pen = ctx.real('penalty', 0, 1) if warton else None
    with env(ctx):
        r = pm.gaussian_syn_likelihood(ctx.array(ssx), ctx.array([ssy]), shrinkage='warton' if warton else None, penalty=pen,
                                       whitening=ctx.array(W) if whiten else None)
    ctx.claim('one_density_evaluation', len(MVNLog.calls) == 1 and np.shape(r) == (1,))
    x, mean, cov = MVNLog.calls[0]
    if whiten:
        sx = [[Sum([ssx[i][k] * W[j][k] for k in range(d)]) for j in range(d)] for i in range(n)]
        sy = [Sum([W[j][k] * ssy[k] for k in range(d)]) for j in range(d)]
    else:
        sx, sy = ssx, ssy
    m_ref, c_ref = moments(sx, n, d)
    poly_all(ctx, 'evaluated_at_the_observed_summaries', x, sy)
    poly_all(ctx, 'mean_is_sample_mean', mean, m_ref)
    if not warton:
        poly_all(ctx, 'covariance_is_unbiased_sample_covariance', cov, c_ref)
    else:
        g = 1 - pen
        eps = Fraction(1, 100000)
        want = [[g * c_ref[j][k] + ((1 - g) * (c_ref[j][j] + eps) if j == k else 0) for k in range(d)] for j in range(d)]
        for j in range(d):
            for k in range(d):
                ctx.claim_poly('warton_shrunk_covariance_%d%d' % (j, k), cov[j][k], want[j][k])
    if ctx.symbolic:
        ctx.claim('value_is_the_normal_log_density_of_those',
                  r[0] == ctx.apply_uf('MVNLOGPDF%d' % d, list(x) + list(mean) + list(cov.reshape(-1))))


def h_ghurye_olkin(ctx, n, d):
    ctx.assume_nonzero_divisors = True
    ssx = [[ctx.real('x%d_%d' % (i, j)) for j in range(d)] for i in range(n)]
    ssy = [ctx.real('y%d' % j) for j in range(d)]
    with env(ctx):
        r = pm.gaussian_syn_likelihood_ghurye_olkin(ctx.array(ssx), ctx.array(ssy))
    m_ref, c_ref = moments(ssx, n, d)
    ctx.claim('two_log_determinants', len(SlogLog.calls) == 2)
    if len(SlogLog.calls) != 2:
        return
    S, P = SlogLog.calls
    poly_all(ctx, 'first_logdet_of_sample_covariance', S, c_ref)
    psi = [[(n - 1) * c_ref[j][k] - (ssy[j] - m_ref[j]) * (ssy[k] - m_ref[k]) / (1 - Fraction(1, n)) for k in range(d)] for j in range(d)]
    poly_all(ctx, 'second_logdet_of_psi', P, psi)
    from scipy.special import loggamma

    def wcon(k, nu):
        return -k * nu / 2 * math.log(2) - k * (k - 1) / 4 * math.log(math.pi) - float(np.sum(loggamma([0.5 * (nu - x) for x in range(k)])))
    A = wcon(d, n - 2) - wcon(d, n - 1) - 0.5 * d * math.log(1 - 1 / n)
    if ctx.symbolic:
        ls = ctx.apply_uf('SLOGDET%d' % d, list(np.reshape(S, -1)))
        lp = ctx.apply_uf('SLOGDET%d' % d, list(np.reshape(P, -1)))
    else:
        ls, lp = np.linalg.slogdet(np.array(S, dtype=float))[1], np.linalg.slogdet(np.array(P, dtype=float))[1]
    want = -0.5 * d * math.log(2 * math.pi) + A + (-0.5 * (n - d - 2)) * (math.log(n - 1) + ls) + 0.5 * (n - d - 3) * lp
    ctx.claim('value_is_the_ghurye_olkin_formula', close(r[0], want, 1e-6))


def h_misspec(ctx, n, d, adjustment):
    ctx.assume_nonzero_divisors = True
    ssx = [[ctx.real('x%d_%d' % (i, j)) for j in range(d)] for i in range(n)]
    ssy = [ctx.real('y%d' % j) for j in range(d)]
    gamma = [ctx.real('g%d' % j, 0, None) for j in range(d)]
    with env(ctx):
        r = pm.syn_likelihood_misspec(ctx.array(ssx), ctx.array([ssy]), ctx.array(gamma), adjustment)
    m_ref, c_ref = moments(ssx, n, d)
    x, mean, cov = MVNLog.calls[0]
    poly_all(ctx, 'evaluated_at_the_observed_summaries', x, ssy)
    cov = np.atleast_2d(cov)
    for j in range(d):
        if adjustment == 'mean':
            # mean_j + sd_j * gamma_j  with sd_j >= 0, sd_j^2 = cov_jj
            delta = mean[j] - m_ref[j]
            ctx.claim('mean_%d_shifted_by_sd_times_gamma' % j,
                      And(delta >= 0, close(delta * delta, c_ref[j][j] * gamma[j] * gamma[j], 1e-6)))
        else:
            ctx.claim_poly('mean_%d_is_sample_mean' % j, mean[j], m_ref[j])
        for k in range(d):
            extra = c_ref[j][j] * gamma[j] * gamma[j] if (adjustment == 'variance' and j == k) else 0
            ctx.claim('cov_%d%d' % (j, k), close(cov[j][k], c_ref[j][k] + extra, 1e-6))


# ---------------------------------------------------------------- transforms and MH step

BOUND_TYPES = {'two_sided': ('a', 'b'), 'upper_only': (-INF, 'b'), 'lower_only': ('a', INF), 'none': (-INF, INF)}


def mk_bound(ctx, kinds):
    rows, info = [], []
    for i, k in enumerate(kinds):
        lo, hi = BOUND_TYPES[k]
        a = ctx.real('a%d' % i) if lo == 'a' else lo
        b = ctx.real('b%d' % i) if hi == 'b' else hi
        if lo == 'a' and hi == 'b':
            ctx.assume(a < b)
        rows.append([a, b])
        info.append((k, a, b))
    arr = np.empty((len(kinds), 2), dtype=object if ctx.symbolic else float)
    for i, (a, b) in enumerate(rows):
        arr[i, 0], arr[i, 1] = a, b
    return arr, info


def inside(ctx, th, info):
    for t, (k, a, b) in zip(th, info):
        if k in ('two_sided', 'lower_only'):
            ctx.assume(t > a)
        if k in ('two_sided', 'upper_only'):
            ctx.assume(t < b)


def h_roundtrip(ctx, kinds):
    ctx.assume_nonzero_divisors = True
    bound, info = mk_bound(ctx, kinds)
    th = [ctx.real('theta%d' % i) for i in range(len(kinds))]
    inside(ctx, th, info)
    with env(ctx):
        tt = bsl.BSL._para_logit_transform(ctx.array(th), bound)
        back = bsl.BSL._para_logit_back_transform(tt, bound)
    for i, (k, a, b) in enumerate(info):
        ctx.claim('back_transform_inverts_transform_%s_%d' % (k, i), close(back[i], th[i], 1e-7))
        if k == 'none':
            ctx.claim('unbounded_parameter_untouched_%d' % i, close(tt[i], th[i]))


def jac_ref(ctx, k, a, b, E):
    """|d theta / d theta_tilde| as a function of E = exp(theta_tilde), derived by hand from the back-transform:
    two-sided a/(1+E) + b/(1+1/E) -> (b-a)E/(1+E)^2 ; upper-only b - 1/E -> 1/E ; lower-only a + E -> E ; none -> 1."""
    if k == 'two_sided':
        return (b - a) * E / ((1 + E) * (1 + E))
    if k == 'upper_only':
        return 1 / E
    if k == 'lower_only':
        return E
    return 1


def h_jacobian(ctx, kinds):
    ctx.assume_nonzero_divisors = True
    bound, info = mk_bound(ctx, kinds)
    y = [ctx.real('y%d' % i) for i in range(len(kinds))]
    with env(ctx):
        lj = bsl.BSL._jacobian_logit_transform(ctx.array(y), bound)
    ref = 1
    for i, (k, a, b) in enumerate(info):
        E = ctx.uf_exp(y[i]) if ctx.symbolic else math.exp(y[i])
        ref = ref * jac_ref(ctx, k, a, b, E)
    if ctx.symbolic:
        # bring the code's value (sums of y_i and +-LOG(...)) and the reference to a common multiplicative form:
        # exp(code) = prod exp(linear part) * prod LOG-arguments
        lin, rest = split_linear(ctx, lj, y)
        prodlin = 1
        for i, coef in lin.items():
            E = ctx.uf_exp(y[i])
            if coef != int(coef):
                ctx.claim('jacobian_is_derivative_of_back_transform', False)      # not of the stated form at all
                return
            c = int(coef)
            prodlin = prodlin * (E ** c if c >= 0 else 1 / (E ** (-c)))
        ctx.claim_poly('jacobian_is_derivative_of_back_transform', prodlin * ctx.exp_of(rest), ref)
    else:
        ctx.claim('jacobian_is_derivative_of_back_transform', close(math.exp(lj), ref, 1e-6))


def split_linear(ctx, term, ys):
    """term = sum_i c_i * y_i + rest with c_i in {-1,0,1}: returns ({i: c_i}, rest)."""
    import z3
    t = core.rterm(term)
    lin = {}
    rest = t
    for i, yi in enumerate(ys):
        # coefficient of y_i: evaluate derivative structurally by substitution differences
        t0 = z3.simplify(z3.substitute(t, (yi.t, z3.RealVal(0))))
        t1 = z3.simplify(z3.substitute(t, (yi.t, z3.RealVal(1))))
        # y_i also occurs inside EXP(y_i): those applications are kept opaque by substituting them first
    # opaque EXP apps
    subs = []
    for a, r in ctx.uf_apps.get('EXP', []):
        subs.append((r, z3.Real('expapp!%d' % len(subs))))
    topaque = z3.substitute(t, *subs) if subs else t
    back = [(v, r) for r, v in subs]
    rest_o = topaque
    for i, yi in enumerate(ys):
        d0 = z3.simplify(z3.substitute(topaque, (yi.t, z3.RealVal(0))))
        d1 = z3.simplify(z3.substitute(topaque, (yi.t, z3.RealVal(1))))
        c = z3.simplify(d1 - d0, som=True)
        if z3.is_rational_value(c) and c.numerator_as_long() != 0:
            lin[i] = int(Fraction(c.numerator_as_long(), c.denominator_as_long()))
            rest_o = rest_o - lin[i] * yi.t
    rest = z3.substitute(z3.simplify(rest_o), *back) if back else z3.simplify(rest_o)
    return lin, SymX(rest)


def mk_bsl(ctx, bound, params_rows, logpost, logprior, n):
    """A BSL object with a directly constructed chain state (constructor needs a whole model; the MH step does not)."""
    obj = bsl.BSL.__new__(bsl.BSL)
    obj.logit_transform_bound = bound
    obj.state = {'params': ctx.array(params_rows), 'logposterior': ctx.array(logpost), 'logprior': ctx.array(logprior),
                 'n_samples': n, 'n_sim_round': 0}
    return obj


def h_mh_ratio(ctx, kinds):
    ctx.assume_nonzero_divisors = True
    bound, info = mk_bound(ctx, kinds)
    p = len(kinds)
    prev = [ctx.real('prev%d' % i) for i in range(p)]
    cur = [ctx.real('cur%d' % i) for i in range(p)]
    inside(ctx, prev, info)
    inside(ctx, cur, info)
    lp_prev, lp_cur = ctx.real('logpost_prev'), ctx.real('logpost_cur')
    with env(ctx):
        obj = mk_bsl(ctx, bound if any(k != 'none' for k in kinds) else None, [prev, cur], [lp_prev, lp_cur], [0, 0], 1)
        ratio = obj._get_mh_ratio()
    # reference Jacobians in terms of theta itself (E = exp(theta_tilde) expressed through theta)
    def jt(th, k, a, b):
        if k == 'two_sided':
            return (th - a) * (b - th) / (b - a)
        if k == 'upper_only':
            return b - th
        if k == 'lower_only':
            return th - a
        return 1
    Jc, Jp = 1, 1
    for i, (k, a, b) in enumerate(info):
        Jc = Jc * jt(cur[i], k, a, b)
        Jp = Jp * jt(prev[i], k, a, b)
    if ctx.symbolic:
        if not isinstance(ratio, SymX):
            raise core.Infeasible()        # clamped at +-700: outside this claim
        arg = ctx.exp_arg(ratio)
        if arg is None:
            ctx.claim('ratio_is_an_exponential', False)
            return
        delta = lp_cur - lp_prev
        # unclamped region: |res| <= 700 ; there res = delta + logJ(cur~) - logJ(prev~)
        rest = arg - delta
        unclamped = And(arg < 700, arg > -700)
        if not bool(unclamped):
            raise core.Infeasible()
        try:
            P = ctx.exp_of(rest)
        except core._NotRational:
            # the Jacobian terms are not pure logarithms of rational functions of theta: compare through exp/log facts
            ctx.claim('log_ratio_is_posterior_difference_plus_log_jacobian_ratio',
                      rest == ctx.uf_log(Jc) - ctx.uf_log(Jp))
            return
        ctx.claim_poly('log_ratio_is_posterior_difference_plus_log_jacobian_ratio', P * Jp, Jc)
    else:
        want = math.exp(max(-700, min(700, lp_cur - lp_prev + math.log(Jc) - math.log(Jp))))
        ctx.claim('log_ratio_is_posterior_difference_plus_log_jacobian_ratio', close(ratio, want, 1e-6))


class StubRS:
    def __init__(self, ctx):
        self.ctx = ctx
        self.k = 0

    def uniform(self):
        self.k += 1
        return self.ctx.real('u%d' % self.k, 0, 1, hi_open=True)

    def multivariate_normal(self, mean, cov):
        self.k += 1
        return self.ctx.array([m + self.ctx.real('step%d_%d' % (self.k, i)) for i, m in enumerate(np.reshape(mean, -1))])


def h_process(ctx):
    """One _process_simulated step (no transform): acceptance iff u < min(1, ratio); rejection copies the previous row."""
    prev, cand = ctx.real('prev'), ctx.real('cand')
    lp_prev = ctx.real('logpost_prev')
    lprior_prev, lprior_cand = ctx.real('logprior_prev'), ctx.real('logprior_cand')
    ll = ctx.real('loglik')
    with env(ctx):
        obj = mk_bsl(ctx, None, [[prev], [cand]], [lp_prev, 0], [lprior_prev, lprior_cand], 1)
        obj.is_misspec = False
        obj.simulated = np.zeros((2, 1))
        obj.observed = np.zeros((1, 1))
        obj.likelihood = lambda ssx, ssy: ll
        obj.random_state = StubRS(ctx)
        obj.burn_in = 0
        obj.num_accepted = 0
        obj._get_mh_ratio_orig = obj._get_mh_ratio
        obj._process_simulated()
    st = obj.state
    u = ctx.real('u1', 0, 1, hi_open=True)
    res = ll + lprior_cand - lp_prev
    ctx.assume(And(res < 700, res > -700))
    ratio = ctx.uf_exp(res) if ctx.symbolic else math.exp(res)
    ctx.assume(Not(u == ratio))
    accept = Or(ratio >= 1, u < ratio)
    acc_code = bool(close(st['params'][1][0], cand)) if not ctx.symbolic else None
    accepted_row = And(close(st['params'][1][0], cand), close(st['logposterior'][1], ll + lprior_cand),
                       close(st['logprior'][1], lprior_cand))
    copied_row = And(close(st['params'][1][0], prev), close(st['logposterior'][1], lp_prev), close(st['logprior'][1], lprior_prev))
    ctx.assume(Not(prev == cand))
    ctx.claim('accepted_iff_uniform_below_min_1_ratio', Or(And(accept, accepted_row), And(Not(accept), copied_row)))
    ctx.claim('chain_advanced_by_one', st['n_samples'] == 2)
    ctx.claim('one_uniform_draw', obj.random_state.k == 1)


def h_init_round(ctx, n_outside):
    """Proposals with non-finite prior log-density are rejected without simulating: the row is copied, the chain
    advances, and no simulation is requested for them."""
    prev = ctx.real('prev')
    lp_prev, lprior_prev = ctx.real('logpost_prev'), ctx.real('logprior_prev')
    total = n_outside + 2
    evals = []

    class Prior:
        def logpdf(self, x):
            k = len(evals)
            evals.append(x)
            if k < n_outside:
                return -INF
            return ctx.real('logprior_new')
    with env(ctx):
        rows = [[prev]] + [[ctx.real('junk%d' % i)] for i in range(total)]
        obj = mk_bsl(ctx, None, rows, [lp_prev] + [0] * total, [lprior_prev] + [0] * total, 1)
        obj.is_misspec = False
        obj.prior = Prior()
        obj.random_state = StubRS(ctx)
        obj.sigma_proposals = np.eye(1)
        obj.objective = {'round': 5}
        calls = []
        obj.set_objective = lambda r: (calls.append(r), obj.objective.__setitem__('round', r))
        obj._init_round()
    st = obj.state
    for k in range(n_outside):
        ctx.claim('outside_proposal_%d_copies_previous_state' % k,
                  And(close(st['params'][1 + k][0], prev), close(st['logposterior'][1 + k], lp_prev),
                      close(st['logprior'][1 + k], lprior_prev)))
    ctx.claim('chain_advanced_past_rejected_proposals', st['n_samples'] == 1 + n_outside)
    ctx.claim('rounds_reduced_by_one_per_rejected_proposal_(no_simulation_for_it)', calls == [5 - 1 - k for k in range(n_outside)])
    ctx.claim('first_proposal_inside_support_becomes_the_candidate',
              close(st['params'][1 + n_outside][0], prev + ctx.real('step%d_0' % (n_outside + 1))) and st['n_sim_round'] == 0)
    ctx.claim('one_prior_evaluation_per_proposal', len(evals) == n_outside + 1)


HARNESSES = [
    H('standard_n3_d1', h_standard, dict(n=3, d=1, whiten=False, warton=False), bounds='3 simulations x 1 summary'),
    H('standard_n3_d2', h_standard, dict(n=3, d=2, whiten=False, warton=False), bounds='3 x 2'),
    H('standard_n3_d2_whitened', h_standard, dict(n=3, d=2, whiten=True, warton=False), bounds='3 x 2, whitening matrix'),
    H('standard_n3_d2_warton', h_standard, dict(n=3, d=2, whiten=False, warton=True), bounds='3 x 2, Warton shrinkage, penalty in [0,1]'),
    H('standard_n3_d2_whitened_warton', h_standard, dict(n=3, d=2, whiten=True, warton=True),
      bounds='3 x 2, whitening + Warton shrinkage together (the covariance must be shrunk in whitened space)', path_timeout=600),
    H('standard_n4_d2_whitened_warton', h_standard, dict(n=4, d=2, whiten=True, warton=True), bounds='4 x 2, whitening + Warton',
      tiers=('thorough',), path_timeout=600),
    H('ghurye_olkin_n5_d1', h_ghurye_olkin, dict(n=5, d=1), bounds='5 x 1'),
    H('ghurye_olkin_n5_d2', h_ghurye_olkin, dict(n=5, d=2), bounds='5 x 2'),
    H('misspec_mean_n3_d2', h_misspec, dict(n=3, d=2, adjustment='mean'), bounds='3 x 2, mean adjustment'),
    H('misspec_variance_n3_d2', h_misspec, dict(n=3, d=2, adjustment='variance'), bounds='3 x 2, variance adjustment'),
    H('roundtrip_all_types', h_roundtrip, dict(kinds=('two_sided', 'upper_only', 'lower_only', 'none')), bounds='one parameter of each bound type'),
    H('jacobian_two_sided', h_jacobian, dict(kinds=('two_sided',)), bounds='two-sided bound'),
    H('jacobian_lower_only', h_jacobian, dict(kinds=('lower_only',)), bounds='lower bound only'),
    H('jacobian_upper_only', h_jacobian, dict(kinds=('upper_only',)), bounds='upper bound only'),
    H('jacobian_mixed', h_jacobian, dict(kinds=('two_sided', 'lower_only', 'none')), bounds='three parameters: two-sided, lower-only, unbounded'),
    H('mh_ratio_none', h_mh_ratio, dict(kinds=('none',)), bounds='unbounded parameter (no transform)'),
    H('mh_ratio_lower_only', h_mh_ratio, dict(kinds=('lower_only',)), bounds='lower bound only'),
    H('mh_ratio_upper_only', h_mh_ratio, dict(kinds=('upper_only',)), bounds='upper bound only'),
    H('mh_ratio_two_sided', h_mh_ratio, dict(kinds=('two_sided',)), bounds='two-sided bound'),
    H('mh_ratio_mixed', h_mh_ratio, dict(kinds=('two_sided', 'lower_only')), bounds='two parameters', tiers=('thorough',)),
    H('process_simulated', h_process, dict(), bounds='one MH decision, unbounded parameter'),
    H('init_round_1_outside', h_init_round, dict(n_outside=1), bounds='1 proposal outside the prior support, then one inside'),
    H('init_round_2_outside', h_init_round, dict(n_outside=2), bounds='2 proposals outside, then one inside'),
]

MANIFEST = {
    'level_text': 'Bounded symbolic execution of the real BSL likelihood and MH-step code: the arguments reaching the normal '
                  'log-density / log-determinants are the sample mean and unbiased covariance of the (whitened) summaries, the '
                  'Warton-shrunk resp. misspecification-adjusted moments (rational-function identities), the unbiased estimator '
                  'equals the Ghurye-Olkin formula; back-transform inverts transform for each bound type; the Jacobian term equals '
                  'the derivative of the back-transform and the MH log-ratio equals posterior difference plus log-Jacobian ratio '
                  '(after a log/exp normalisation, polynomial identities); acceptance iff u < min(1, ratio); proposals outside '
                  'the prior support are rejected without a simulation round.',
    'level_note': '<=4 simulations x 2 summaries; exp/log/normal density/slogdet uninterpreted (listed axioms); chain state '
                  'constructed directly on a BSL object (constructor and model plumbing are not part of these claims); glasso and '
                  'the semi-parametric likelihood are outside. z3 trusted.',
}
