"""C09 MCMC kernels implement their algorithm and never leave the target's support."""
import numpy as np
from fractions import Fraction

import elfi.methods.mcmc as mcmc

from symx import core
from symx.core import And, Or, Not, Implies, close, INF, NAN, SymX
from symx.explore import H
from symx.npfacade import patched, std_bindings, NPFacade, _Sub
from symx.stubs import SymRandomState

PROPERTY = 'C09'
EXPLANATION = ('elfi.methods.mcmc.metropolis runs whole on a symbolic start point, proposal scales and generator draws with an '
               'uninterpreted log-target (finite value LOGT(x), -inf or NaN as decided by the uninterpreted TKIND(x)) and is compared '
               'with the random-walk Metropolis chain written from the property text over the same draws. NUTS is treated '
               'inductively: _build_tree_nuts at depth 0 on arbitrary inputs (base), the real function at depth >= 1 with its '
               'recursive calls replaced by a stub returning any tuple that satisfies the invariant "n_sub >= 0 and (n_sub > 0 => '
               'the sub-tree proposal has a finite log-target)" (step), and one iteration of the nuts() loop over that stub.  (A harness running the real recursion at depth 1 exists in the file but '
               'is not registered: single paths exceeded the 300 s watchdog.)')
ASSUMPTIONS = [
    'the log-target is a deterministic function (uninterpreted): finite, -inf or NaN per point',
    'randn() returns finite reals, rand() values in [0,1), exponential() >= 0 (numpy contract)',
    'ties u == ratio are outside the claim (either decision satisfies the property text)',
    'exp is uninterpreted with positivity, monotonicity and exp(0)=1 instances; exact reals',
    'NUTS: the step size is passed explicitly (the initial step-size search has data-dependent unbounded loops)',
]
OUTSIDE = ['"reproduces the target\'s moments" (statistical, no solver formulation)', 'step-size adaptation quality',
           'the initial step-size search of nuts()', 'dimension > 2', 'float(mh_ratio) of 1-element arrays (numpy >= 2.5 TypeError '
           'when the target returns shape (1,); targets here return scalars as test_nuts does)']


class Global:
    log = []

    def __getattr__(self, name):
        Global.log.append(name)
        raise core.Cut('global generator used: %s' % name)


class SeedRS(SymRandomState):
    made = []

    def __init__(self, seed=None):
        super().__init__(name='rs%s' % seed)
        SeedRS.made.append(seed)


def ratio_exp(x):
    """exp of a difference of log densities as the quotient of the densities (LOG applications are cancelled), so that a
    counterexample model fixes the acceptance ratio itself and replays in floats; anything else: the ordinary exp."""
    ctx = core.cur()
    if ctx.symbolic and isinstance(x, SymX):
        try:
            return ctx.exp_of(x)
        except Exception:
            return x.exp()
    return _FACADE_EXP(x)


_FACADE_EXP = NPFacade().exp


def env(ctx):
    Global.log = []
    SeedRS.made = []
    g = Global()
    rnd = _Sub(np.random, {'RandomState': SeedRS, 'rand': g.__getattr__, 'randn': g.__getattr__})
    fac = NPFacade(random=rnd, extra={'exp': ratio_exp})
    return patched([(mcmc, {'np': fac, 'float': __import__('symx.npfacade', fromlist=['x']).sym_float})])


class Target:
    """Uninterpreted log-target: kind (0 finite / 1 -inf / 2 nan) and value."""

    def __init__(self, ctx, dim, kinds=(0, 1, 2), as_log_density=False):
        self.ctx, self.dim, self.kinds = ctx, dim, kinds
        self.evals = 0
        # as_log_density: a finite value is LOG(DENS(x)) with DENS > 0 uninterpreted (the same set of targets: log is a
        # bijection); acceptance ratios then are quotients of DENS values, which a counterexample model pins exactly
        self.as_log_density = as_log_density

    def kind(self, x):
        ctx = self.ctx
        if not ctx.symbolic:
            # concrete twin: the kind the model assigns to this point; points the model says nothing about are finite
            v = ctx.uf_table('TKIND', [float(a) for a in x], None) if ctx.tables.get('TKIND') else None
            return int(v) % (max(self.kinds) + 1) if v is not None else 0
        k = ctx.apply_uf('TKIND', list(x), sort='int')
        ctx.assume(And(k >= 0, k <= max(self.kinds)))
        return ctx.concretize(k.t)

    def __call__(self, x):
        x = list(np.asarray(x, dtype=object).reshape(-1)) if self.ctx.symbolic else [float(v) for v in np.reshape(x, -1)]
        self.evals += 1
        k = self.kind(x)
        if k == 1:
            return -INF
        if k == 2:
            return NAN
        if self.as_log_density:
            ctx = self.ctx
            d = ctx.apply_uf('DENS', x)
            if ctx.symbolic:
                ctx._fact(d.t > 0)
                return d.log()
            import math
            return math.log(abs(d) + (0.5 if d == 0 else 0))
        return self.ctx.apply_uf('LOGT', x)

    def grad(self, x):
        ctx = self.ctx
        x = list(np.asarray(x, dtype=object).reshape(-1)) if ctx.symbolic else [float(v) for v in np.reshape(x, -1)]
        return ctx.array([ctx.apply_uf('GRADT%d' % i, x) for i in range(self.dim)])


def h_metropolis(ctx, dim, n_samples, warmups=(0, 1), start_dtype=None):
    T = Target(ctx, dim, as_log_density=True)
    if start_dtype is None:
        p0 = [ctx.real('p0_%d' % i) for i in range(dim)]
        start = ctx.array(p0)
    else:
        # the starting point is an ordinary numpy array of another dtype than float64 (integer initials, float32):
        # solver-chosen small values that this dtype represents exactly
        grid = {'int64': [-1, 0, 2], 'float32': [-0.5, 0.25, 1.5]}[start_dtype]
        p0 = [grid[ctx.choice('p0_%d_sel' % i, len(grid))] for i in range(dim)]
        start = np.array(p0, dtype=start_dtype)
        p0 = [Fraction(v).limit_denominator(4) for v in p0] if ctx.symbolic else [float(v) for v in p0]
    sig = [ctx.real('sigma_%d' % i, 0, None, lo_open=True) for i in range(dim)]
    warmup = warmups[ctx.choice('warmup_sel', len(warmups))]
    seed = 3
    raised = None
    with env(ctx):
        try:
            out = mcmc.metropolis(n_samples, start, T, ctx.array(sig), warmup=warmup, seed=seed)
        except ValueError as e:
            raised = e
    k0 = T.kind(p0)
    if raised is not None or k0 != 0:
        # started from an invalid point: -inf is refused; a NaN start is outside the "valid start" premise
        ctx.claim('minus_inf_start_is_refused', (raised is not None) == (k0 == 1))
        return
    ctx.claim('n_rows', np.shape(out) == (n_samples, dim))
    # reference chain from the property text over the same draws
    total = n_samples + warmup
    cur = list(p0)
    tcur = T(cur)
    chain = []
    for k in range(total):
        z = [ctx.real('rs%s.z%d' % (seed, k * (dim + 1) + i)) for i in range(dim)]
        u = ctx.real('rs%s.u%d' % (seed, k * (dim + 1) + dim))
        prop = [c + s * zi for c, s, zi in zip(cur, sig, z)]
        tp = T(prop)
        if core._is_special(tp) or (not ctx.symbolic and not np.isfinite(tp)):
            acc = False
        else:
            ratio = ratio_exp(tp - tcur) if ctx.symbolic else float(np.exp(min(700.0, tp - tcur)))
            ctx.assume(Not(u == ratio))
            acc = bool(u < ratio)
        if acc:
            cur, tcur = prop, tp
        chain.append(list(cur))
    for j in range(n_samples):
        ref = chain[warmup + j]
        ctx.claim('state_%d_is_the_metropolis_chain_state' % j, And(*[close(out[j][i], ref[i], 1e-10, 1e-12) for i in range(dim)]))
        ctx.claim('state_%d_has_finite_log_target' % j, T.kind(list(out[j])) == 0)
    ctx.claim('only_the_seeded_generator_is_used', Global.log == [] and SeedRS.made == [seed])
    ctx.claim('draws_used', True)


# ------------------------------------------------------------------------------------------------ NUTS

def vec(ctx, name, dim):
    return ctx.array([ctx.real('%s_%d' % (name, i)) for i in range(dim)])


def valid_point(ctx, T, x):
    return T.kind(list(x)) == 0


def h_nuts_base(ctx, dim):
    """_build_tree_nuts(depth=0) on arbitrary inputs: n_sub in {0,1}; n_sub = 1 only if the new point is valid."""
    T = Target(ctx, dim)
    params, mom = vec(ctx, 'params', dim), vec(ctx, 'mom', dim)
    lsv, lj0 = ctx.real('log_slicevar'), ctx.real('log_joint0')
    step = ctx.real('step')
    ctx.assume(Not(step == 0))
    rs = SymRandomState('rs')
    with env(ctx):
        r = mcmc._build_tree_nuts(params, mom, lsv, step, 0, lj0, T, T.grad, rs)
    pl, ml, pr, mr, p1, n_sub, sub_ok, mh, n_steps, is_div, is_out = r
    ctx.claim('n_sub_is_0_or_1', Or(n_sub == 0, n_sub == 1))
    k = T.kind(list(p1))
    ctx.claim('counted_only_if_log_target_finite', Implies(n_sub > 0, k == 0))
    ctx.claim('leapfrog_position', And(*[close(p1[i], params[i] + step * (mom[i] + step / 2 * T.grad(params)[i]), 1e-7)
                                         for i in range(dim)]))
    ctx.claim('left_right_are_the_new_point', all(a is b or bool(And(*[close(x, y) for x, y in zip(a, b)]))
                                                  for a, b in ((pl, p1), (pr, p1))))
    ctx.claim('mh_ratio_in_0_1', And(mh >= 0, mh <= 1))
    ctx.claim('one_step', n_steps == 1)
    ctx.claim('no_draws_at_depth_0', rs.k == 0)


def inv_stub(ctx, T, dim, tag, calls):
    """Any result of a sub-tree that satisfies the invariant."""
    def stub(params, momentum, log_slicevar, step, depth, log_joint0, target, grad_target, random_state):
        i = len(calls)
        calls.append(depth)
        pl, ml = vec(ctx, '%s%d_pl' % (tag, i), dim), vec(ctx, '%s%d_ml' % (tag, i), dim)
        pr, mr = vec(ctx, '%s%d_pr' % (tag, i), dim), vec(ctx, '%s%d_mr' % (tag, i), dim)
        p1 = vec(ctx, '%s%d_p1' % (tag, i), dim)
        n_sub = ctx.int('%s%d_nsub' % (tag, i), 0, 2 ** max(0, depth))
        sub_ok = ctx.flag('%s%d_subok' % (tag, i))
        mh = ctx.real('%s%d_mh' % (tag, i), 0, None)
        n_steps = ctx.int('%s%d_nsteps' % (tag, i), 1, 2 ** max(0, depth))
        is_div = ctx.flag('%s%d_isdiv' % (tag, i))
        is_out = ctx.flag('%s%d_isout' % (tag, i))
        # invariant I
        if bool(n_sub > 0):
            ctx.assume(T.kind(list(p1)) == 0)
        # what the real sub-tree returns on its own side is the moved end; the other end is passed through unchanged
        return pl, ml, pr, mr, p1, n_sub * 1.0 if not ctx.symbolic else core.SymX(core.z3.ToReal(n_sub.t)), sub_ok, mh, \
            (n_steps * 1.0 if not ctx.symbolic else core.SymX(core.z3.ToReal(n_steps.t))), is_div, is_out
    return stub


def h_nuts_step(ctx, dim, depth):
    """The real _build_tree_nuts at depth >= 1 over invariant-respecting sub-trees preserves the invariant."""
    T = Target(ctx, dim)
    params, mom = vec(ctx, 'params', dim), vec(ctx, 'mom', dim)
    lsv, lj0 = ctx.real('log_slicevar'), ctx.real('log_joint0')
    step = ctx.real('step')
    ctx.assume(Not(step == 0))
    rs = SymRandomState('rs')
    calls = []
    real = mcmc._build_tree_nuts
    with env(ctx), patched([(mcmc, {'_build_tree_nuts': inv_stub(ctx, T, dim, 'sub', calls)})]):
        r = real(params, mom, lsv, step, depth, lj0, T, T.grad, rs)
    pl, ml, pr, mr, p1, n_sub, sub_ok, mh, n_steps, is_div, is_out = r
    ctx.claim('n_sub_nonnegative', n_sub >= 0)
    if bool(n_sub > 0):
        ctx.claim('proposal_has_finite_log_target_when_counted', T.kind(list(p1)) == 0)
    ctx.claim('sub_trees_built_at_depth_minus_1', all(d == depth - 1 for d in calls) and 1 <= len(calls) <= 2)
    ctx.claim('n_steps_positive', n_steps >= 1)
    ctx.claim('at_most_one_uniform_draw', rs.k <= 1)


def h_nuts_iteration(ctx, dim, max_depth):
    """One iteration of nuts() over invariant-respecting trees: the new state has a finite log-target."""
    T = Target(ctx, dim)
    p0 = vec(ctx, 'p0', dim)
    stepsize = ctx.real('stepsize', 0, None, lo_open=True)
    calls = []
    seed = 5
    raised = None
    with env(ctx), patched([(mcmc, {'_build_tree_nuts': inv_stub(ctx, T, dim, 'tree', calls)})]):
        try:
            out = mcmc.nuts(1, p0, T, T.grad, n_adapt=0, max_depth=max_depth, seed=seed, stepsize=stepsize)
        except ValueError as e:
            raised = e
    k0 = T.kind(list(p0))
    if raised is not None or k0 != 0:
        ctx.claim('minus_inf_start_is_refused', (raised is not None) == (k0 == 1))
        return
    ctx.claim('n_rows', np.shape(out) == (1, dim))
    ctx.claim('new_state_has_finite_log_target', T.kind(list(out[0])) == 0)
    ctx.claim('trees_requested_at_depths_0_1_2', calls == list(range(len(calls))) and 1 <= len(calls) <= max_depth + 1)
    ctx.claim('only_the_seeded_generator_is_used', Global.log == [] and SeedRS.made == [seed])


def h_nuts_concrete_depth(ctx, dim):
    """Whole nuts() with the real recursion, max_depth=1, one iteration, symbolic everything (no stub)."""
    T = Target(ctx, dim, kinds=(0, 1))
    p0 = vec(ctx, 'p0', dim)
    stepsize = ctx.real('stepsize', 0, None, lo_open=True)
    seed = 5
    with env(ctx):
        try:
            out = mcmc.nuts(1, p0, T, T.grad, n_adapt=0, max_depth=1, seed=seed, stepsize=stepsize)
        except ValueError:
            raise core.Infeasible()
    if T.kind(list(p0)) != 0:
        raise core.Infeasible()
    ctx.claim('n_rows', np.shape(out) == (1, dim))
    ctx.claim('new_state_has_finite_log_target', T.kind(list(out[0])) == 0)


HARNESSES = [
    H('metropolis_d1_n2', h_metropolis, dict(dim=1, n_samples=2), bounds='dim 1, 2 samples, warm-up in {0,1}'),
    H('metropolis_d2_n2', h_metropolis, dict(dim=2, n_samples=2, warmups=(0,)), bounds='dim 2, 2 samples, warm-up 0'),
    H('metropolis_d1_n2_int_start', h_metropolis, dict(dim=1, n_samples=2, warmups=(0,), start_dtype='int64'),
      bounds='dim 1, 2 samples, starting point an int64 array with a value from {-1,0,2}'),
    H('metropolis_d2_n1_float32_start', h_metropolis, dict(dim=2, n_samples=1, warmups=(0,), start_dtype='float32'),
      bounds='dim 2, 1 sample, starting point a float32 array with values from {-0.5,0.25,1.5}'),
    H('metropolis_d1_n3', h_metropolis, dict(dim=1, n_samples=3), bounds='dim 1, 3 samples, warm-up in {0,1}', tiers=('thorough',)),
    H('metropolis_d2_n3', h_metropolis, dict(dim=2, n_samples=3), bounds='dim 2, 3 samples, warm-up in {0,1}', tiers=('thorough',)),
    H('nuts_base_d1', h_nuts_base, dict(dim=1), bounds='_build_tree_nuts depth 0, dim 1, arbitrary inputs'),
    H('nuts_base_d2', h_nuts_base, dict(dim=2), bounds='_build_tree_nuts depth 0, dim 2, arbitrary inputs'),
    H('nuts_step_d1', h_nuts_step, dict(dim=1, depth=1), bounds='_build_tree_nuts depth 1 over invariant stubs, dim 1'),
    H('nuts_step_d2_depth3', h_nuts_step, dict(dim=2, depth=3), bounds='_build_tree_nuts depth 3 over invariant stubs, dim 2'),
    H('nuts_iteration_d1', h_nuts_iteration, dict(dim=1, max_depth=1), bounds='one nuts() iteration, max_depth 1, dim 1, invariant stubs'),
    H('nuts_iteration_d1_depth2', h_nuts_iteration, dict(dim=1, max_depth=2), tiers=('thorough',),
      bounds='one nuts() iteration, max_depth 2, dim 1, invariant stubs'),
    H('nuts_iteration_d2', h_nuts_iteration, dict(dim=2, max_depth=1), bounds='one nuts() iteration, max_depth 1, dim 2, invariant stubs',
      tiers=('thorough',)),
]

MANIFEST = {
    'level_text': 'Metropolis: bounded symbolic execution of the whole function; for every start point, scale, draw and every '
                  'log-target (uninterpreted, may be -inf/NaN anywhere) the returned states are exactly the chain of the property '
                  'text and have finite log-target. NUTS: inductive argument discharged by the solver on the real code (base case, '
                  'step case over invariant-satisfying sub-tree results, one loop iteration), so the support claim holds for every '
                  'tree depth; row counts and use of only the seeded generator are checked on the same runs.',
    'level_note': 'dim <= 2, <= 3 Metropolis samples, warm-up <= 1; start point symbolic reals, or an int64 / float32 array of solver-chosen exactly representable values (decided by the concrete twin where numpy casts); NUTS invariant "n_sub>0 => proposal valid" is mine and is what '
                  'the three obligations establish; step size given; moments of the samples are outside (statistical). z3 trusted.',
}
