"""C02 Seeded runs are pure functions of (model, seed, configuration)."""
import itertools
import collections

import numpy as np

import elfi
import elfi.loader
import elfi.utils
import elfi.client
import elfi.clients.native as native
import elfi.model.elfi_model as em
import elfi.model.extensions as ext
import elfi.methods.utils as mu
import elfi.methods.results as mres
import elfi.methods.inference.samplers as smp
import elfi.methods.inference.parameter_inference as pinf

from symx import core
from symx.core import And, Or, Not, Implies, close
from symx.explore import H
from symx.npfacade import patched, std_bindings, NPFacade, _Sub
from harness.graphs import PROGRAMS, Built, Spec
from harness.sched import SchedClient
from harness.C04 import use_client

PROPERTY = 'C02'
EXPLANATION = ('ElfiModel.generate, BatchHandler.compute/submit and a seeded Rejection.sample are executed on programs whose '
               'stochastic operations consume draws from the generator they are handed: numpy.random.RandomState inside '
               'elfi.loader is replaced by a stand-in whose k-th draw is the symbol g<seed>_k, the process-global generator by '
               'one whose draws are the symbols G_k and whose every use is logged. Run A (fresh) is compared term-for-term with '
               'run B (after a solver-chosen history of other generate calls / other batches on the same context / use of the '
               'global generator, with the nodes inserted in another order, or on a client that executes outstanding tasks in a '
               'solver-chosen order).')
ASSUMPTIONS = [
    'numpy.random.RandomState(s) is a deterministic function of s (two instances with the same seed give the same stream)',
    'operations are deterministic functions of their arguments and of the draws they take (uninterpreted)',
    'get_sub_seed is as C15 shows (it is run for real here, concrete seeds)',
]
OUTSIDE = ['multiprocessing / dask / ipyparallel clients (pickling to another interpreter cannot be executed symbolically; the '
           'SchedClient covers execution-order independence only)', 'the Mersenne twister itself', 'graphs beyond the listed programs']


class SeededRS:
    """Stand-in for np.random.RandomState(seed) in elfi.loader."""
    instances = []

    def __init__(self, seed=None):
        self.seed_value = seed
        self.pos = 0
        SeededRS.instances.append(self)

    def take(self, n):
        ctx = core.cur()
        out = [ctx.real('g%s_%d' % (self.seed_value, self.pos + i)) for i in range(n)]
        self.pos += n
        return out


class GlobalRS:
    """Stand-in for the process-global generator: any use is logged."""
    log = []
    pos = 0
    seed_value = 'GLOBAL'

    @classmethod
    def take(cls, n):
        ctx = core.cur()
        cls.log.append(('take', n))
        out = [ctx.real('G_%d' % (cls.pos + i)) for i in range(n)]
        cls.pos += n
        return out

    def __getattr__(self, name):
        GlobalRS.log.append(name)
        raise core.Cut('global generator method %s' % name)


class _Mtrand:
    _rand = GlobalRS()


def env():
    GlobalRS.log = []
    GlobalRS.pos = 0
    SeededRS.instances = []
    rnd = _Sub(np.random, {'RandomState': SeededRS, 'mtrand': _Mtrand})
    b = [(elfi.loader, {'np': NPFacade(random=rnd)})]
    b += std_bindings([smp, pinf, mu, mres], shadow_builtins=True)
    return patched(b)


def topo_orders(specs, limit=6):
    names = [s.name for s in specs]
    deps = {s.name: set(s.pos) | set(s.named.values()) for s in specs}
    out = []
    for perm in itertools.permutations(names):
        seen = set()
        ok = True
        for n in perm:
            if not deps[n] <= seen:
                ok = False
                break
            seen.add(n)
        if ok:
            out.append(list(perm))
    # spread: first, last and a few in between
    if len(out) > limit:
        step = max(1, len(out) // limit)
        out = out[::step][:limit - 1] + [out[-1]]
    return out


def draw_counts(specs):
    return {s.name: 1 + (i % 2) for i, s in enumerate(specs) if s.stochastic}


def structure_claims(ctx, tag, B, seed, batch_indices):
    """All draws of one batch come from one generator seeded by get_sub_seed(seed, batch), nodes draw in an
    order that respects dependencies."""
    by_gen = collections.OrderedDict()
    for node, rs, pos in B.drawlog:
        by_gen.setdefault(id(rs), (rs, []))[1].append((node, pos))
    seeds = [int(elfi.utils.get_sub_seed(seed, b)) for b in batch_indices]
    used = [int(rs.seed_value) for rs, _ in by_gen.values()]
    ctx.claim(tag + '_one_generator_per_batch_seeded_by_subseed',
              set(used) <= set(seeds) and len(set(used)) == len(used))
    for rs, uses in by_gen.values():
        allpos = [p for _, pos in uses for p in pos]
        ctx.claim(tag + '_draws_contiguous', allpos == list(range(len(allpos))))
        order = [n for n, _ in uses]
        ok = True
        for i, n in enumerate(order):
            s = B.specs[n]
            anc = set(s.pos) | set(s.named.values())
            if any(a in order[i + 1:] for a in anc):
                ok = False
        ctx.claim(tag + '_draw_order_respects_dependencies', ok)


def h_generate_purity(ctx, program, family=None):
    if family:
        # solver-chosen program (every program of `family` nodes, see C03.family_program); all nodes requested
        from harness.C03 import family_program
        specs = family_program(ctx, family)
        if not any(s.stochastic for s in specs):
            raise core.Infeasible()
        names = [s.name for s in specs]
        outputs = list(names)
        seed, bs = 100, 2
        hists = (0, 2, 3)
    else:
        specs = PROGRAMS[program]
        names = [s.name for s in specs]
        outputs = [n for n in names if ctx.flag('out_%s' % n)]
        if not outputs:
            raise core.Infeasible()
        seed = (0, 100)[ctx.choice('seed_sel', 2)]
        bs = 1 + ctx.choice('bs_sel', 2)
        hists = (0, 1, 2, 3, 4)
    dc = draw_counts(specs)
    orders = topo_orders(specs)
    oi = ctx.choice('insertion', len(orders))
    hist = hists[ctx.choice('history', len(hists))]
    with env():
        A = Built(ctx, specs, draw_counts=dc)
        try:
            ra = A.model.generate(bs, outputs, seed=seed)
        except ValueError:
            if family:
                raise core.Infeasible()      # observed data depends on a stochastic node: rejected (decided by C03)
            raise
        structure_claims(ctx, 'A', A, seed, [0])
        orderA = [n for n, _, _ in A.drawlog]
        # ---- run B: same program, other insertion order, after a history
        Bm = Built(ctx, specs, draw_counts=dc, insertion=orders[oi])
        # same constants/observations: Built names them identically, so the terms coincide
        if hist == 1:
            Bm.model.generate(bs + 1, names, seed=seed + 7)          # unrelated earlier computation, other seed
        elif hist == 2:
            Bm.model.generate(bs, outputs[:1], seed=seed)            # same seed, other outputs
        elif hist == 3:
            GlobalRS.take(3)                                          # someone consumed the global generator
        elif hist == 4:
            Bm.model.generate(bs, names, seed=seed)
            Bm.model.generate(bs, names, seed=None)                  # unseeded run (draws a fresh seed from the OS/global)
        Bm.drawlog = []
        Bm.calls.clear()
        glog0 = len(GlobalRS.log)
        rb = Bm.model.generate(bs, outputs, seed=seed)
        structure_claims(ctx, 'B', Bm, seed, [0])
        orderB = [n for n, _, _ in Bm.drawlog]
    ctx.note('program=%s outputs=%s insertion=%s hist=%d' % (program, outputs, orders[oi], hist))
    for o in outputs:
        ctx.claim('same_%s' % o, close(ra[o], rb[o]))
    ctx.claim('same_draw_order', orderA == orderB)
    ctx.claim('seeded_run_does_not_touch_the_global_generator', len(GlobalRS.log) == glog0)


def h_batches_purity(ctx, program):
    """Batches of one seeded context computed in another order / repeatedly / by a reordering client."""
    specs = PROGRAMS[program]
    names = [s.name for s in specs]
    outputs = [n for n in names if ctx.flag('out_%s' % n)]
    if not outputs:
        raise core.Infeasible()
    dc = draw_counts(specs)
    seed = 55
    with env():
        A = Built(ctx, specs, draw_counts=dc)
        ca = em.ComputationContext(batch_size=2, seed=seed)
        ha = elfi.client.BatchHandler(A.model, context=ca, output_names=outputs)
        ref = [ha.compute(b) for b in range(3)]
        structure_claims(ctx, 'A', A, seed, [0, 1, 2])
        Bm = Built(ctx, specs, draw_counts=dc)
        cb = em.ComputationContext(batch_size=2, seed=seed)
        hb = elfi.client.BatchHandler(Bm.model, context=cb, output_names=outputs)
        perms = list(itertools.permutations(range(3)))
        perm = perms[ctx.choice('batch_order', len(perms))]
        got = {}
        for b in perm:
            got[b] = hb.compute(b)
        again = hb.compute(perm[0])         # recomputation of an earlier batch (sub-seed cache rewinds)
    for b in range(3):
        for o in outputs:
            ctx.claim('batch%d_%s_independent_of_computation_order' % (b, o), close(ref[b][o], got[b][o]))
    for o in outputs:
        ctx.claim('recomputed_batch_identical_%s' % o, close(again[o], got[perm[0]][o]))
    ctx.claim('no_global_generator', GlobalRS.log == [])


class ReorderClient(SchedClient):
    """Executes all outstanding tasks in a solver-chosen order the first time a result is fetched."""

    def get_result(self, task_id):
        if not hasattr(self, 'results'):
            self.results = {}
        if task_id not in self.results:
            ids = sorted(self.tasks)
            perms = list(itertools.permutations(ids))
            perm = perms[self.ctx.choice('%s.exec_order_%d' % (self.tag, len(self.fetched)), len(perms))] if len(ids) > 1 else ids
            for i in perm:
                k, a, kw = self.tasks[i]
                self.results[i] = k(*a, **kw)
        self.fetched.append(task_id)
        self.tasks.pop(task_id, None)
        return self.results.pop(task_id)


def h_sampler_purity(ctx, program='chain'):
    specs = PROGRAMS[program]
    dc = draw_counts(specs)
    seed = 9
    n, bs, nb = 2, 2, 2

    def arr_op(B):
        return B
    with env():
        A = Built(ctx, specs, draw_counts=dc)
        B2 = Built(ctx, specs, draw_counts=dc)

        def run(Bx, client, mp):
            with use_client(client):
                r = elfi.Rejection(Bx.model['d'], batch_size=bs, seed=seed, output_names=['s'], max_parallel_batches=mp)
                return r.sample(n, n_sim=nb * bs, bar=False)
        vec = Vectorize(ctx)
        for Bx in (A, B2):
            vec.apply(Bx)
        sa = run(A, native.Client(), 1)
        hist = ctx.choice('history', 3)
        if hist == 1:
            run(B2, native.Client(), 1)                       # the same sampler ran before in this process
        elif hist == 2:
            B2.model.generate(3, ['d'], seed=seed + 1)
        sb = run(B2, ReorderClient(ctx, num_cores=3, max_queries=3, tag='rc'), 3)
    for k in ('t', 's', 'd'):
        ctx.claim('sample_%s_identical' % k, And(*[close(sa.outputs[k][j], sb.outputs[k][j]) for j in range(n)]))
    ctx.claim('threshold_and_counts_identical', And(close(sa.threshold, sb.threshold), sa.n_sim == sb.n_sim))
    ctx.claim('no_global_generator', GlobalRS.log == [])


class Vectorize:
    """The programs' operations are scalar-valued; samplers need arrays of batch_size rows: wrap each operation
    so that row i is the scalar operation applied to row i of its array arguments (and to its own draws)."""

    def __init__(self, ctx):
        self.ctx = ctx

    def apply(self, B):
        ctx = self.ctx
        for name, s in B.specs.items():
            if s.kind == 'Constant':
                continue
            st = B.model.get_node(name)['attr_dict']
            B.model.get_node(name)['attr_dict']['_operation'] = self._wrap(B, s, st)

    def _wrap(self, B, spec, st):
        ctx = self.ctx
        scalar = B._op(spec)

        class RowRS:
            def __init__(self, rs):
                self.rs = rs
                self.pos = rs.pos

            def take(self, n):
                self.pos = self.rs.pos
                v = self.rs.take(n)
                self.pos = self.rs.pos
                return v

        def vec(*args, **kw):
            bsz = kw.get('batch_size')
            if bsz is None:
                lens = [len(a) for a in args if hasattr(a, '__len__')]
                bsz = lens[0] if lens else 1
            rows = []
            for i in range(bsz):
                a_i = [a[i] if hasattr(a, '__len__') and len(a) == bsz else a for a in args]
                kw_i = {}
                for k, v in kw.items():
                    if k == 'observed':
                        kw_i[k] = tuple(np.asarray(o).reshape(-1)[0] if hasattr(o, '__len__') else o for o in v)
                    elif k in ('batch_size', 'random_state', 'meta'):
                        kw_i[k] = v
                    else:
                        kw_i[k] = v[i] if hasattr(v, '__len__') and len(v) == bsz else v
                rows.append(scalar(*a_i, **kw_i))
            return ctx.array(rows)
        if spec.kind == 'Prior':
            from functools import partial
            from elfi.model.utils import rvs_from_distribution

            class D:
                pass
            D.rvs = staticmethod(lambda *a, size=None, random_state=None: vec(*a, batch_size=size[0], random_state=random_state))
            return partial(rvs_from_distribution, distribution=D, size=None)
        return vec


HARNESSES = []
for pname in ('chain', 'indep_priors', 'fork_sims', 'two_params_named', 'two_sims', 'two_summaries', 'shared_constant'):
    HARNESSES.append(H('generate_' + pname, h_generate_purity, dict(program=pname),
                       tiers=('quick', 'thorough') if pname in ('chain', 'indep_priors', 'fork_sims', 'two_params_named') else ('thorough',),
                       bounds='program %s; every output subset; seeds {0,100}; batch_size {1,2}; <=6 insertion orders; 5 histories'
                              % pname))
for pname in ('chain', 'indep_priors', 'two_sims', 'two_params_named'):
    HARNESSES.append(H('batches_' + pname, h_batches_purity, dict(program=pname),
                       tiers=('quick', 'thorough') if pname in ('chain', 'indep_priors') else ('thorough',),
                       bounds='program %s; 3 batches of one seeded context in all 6 computation orders + recomputation' % pname))
HARNESSES.append(H('generate_family_3nodes', h_generate_purity, dict(program=None, family=3), max_paths=400000,
                   bounds='EVERY program of 3 nodes with at least one stochastic node (names m, c, x created in that order; kinds, '
                          'positional / named edges, positional order, observations solver-chosen as in C03 gen_family_3nodes); all '
                          'nodes requested; every topological insertion order; histories none / same seed other outputs / global '
                          'generator consumed; seed 100, batch_size 2'))
HARNESSES.append(H('rejection_chain', h_sampler_purity, dict(program='chain'),
                   bounds='Rejection n=2 batch_size=2 2 batches; native sequential vs reordering client (max_parallel 3), 3 histories'))

# the same seeded sampler run on another client: a client that keeps several batches in computation and answers
# readiness arbitrarily must return what the in-process sequential client returns (harness shared with C04)
from harness.C04 import h_rejection_sched  # noqa: E402
HARNESSES.append(H('rejection_threshold_same_on_a_client_with_batches_in_flight', h_rejection_sched,
                   dict(bs=1, n=1, mode='threshold', K=4),
                   bounds='Rejection threshold objective, batch_size 1, n=1, <=4 batches: native sequential client vs a client with '
                          'max_parallel in {1,2,3} and solver-chosen readiness answers (<=6)'))
HARNESSES.append(H('rejection_nsim_same_on_a_client_with_batches_in_flight', h_rejection_sched,
                   dict(bs=2, n=2, mode='n_sim', K=2),
                   bounds='Rejection n_sim objective, batch_size 2, n=2, <=2 batches: native vs scheduled client'))

MANIFEST = {
    'level_text': 'Bounded symbolic execution with symbolic generator streams: for every value of every draw and every operation '
                  '(uninterpreted), the outputs of a seeded generate / batch computation / Rejection run are the same terms after '
                  'any listed history, node insertion order, batch computation order and task execution order; all draws of a batch '
                  'come from one generator seeded by get_sub_seed(seed, batch) in a dependency-respecting node order that is the '
                  'same in both runs; the global generator is never touched (its stand-in logs every use).',
    'level_note': 'RandomState replaced by a position-named stream stub (contract: stream is a function of the seed); every 3-node program of the solver-chosen family and 7 curated programs, '
                  '<=6 insertion orders, 5 histories, 3 batches, in-process clients only (native + reordering stub + the readiness-scheduled client of C04 for threshold / n_sim Rejection runs); real worker '
                  'processes and bit-level reproducibility of numpy are outside. z3 trusted.',
}
