"""C05 Output pools are transparent: reuse never changes results or re-simulates."""
import collections

import numpy as np

import elfi
import elfi.loader
import elfi.utils
import elfi.store
import elfi.model.elfi_model as em
import elfi.methods.utils as mu
import elfi.methods.results as mres
import elfi.methods.inference.samplers as smp
import elfi.methods.inference.parameter_inference as pinf

from symx import core
from symx.core import And, Or, Not, Implies, Sum, If, close, count_true, INF
from symx.explore import H
from symx.npfacade import patched, std_bindings, NPFacade, _Sub

PROPERTY = 'C05'
EXPLANATION = ('Seeded Rejection runs over one in-memory OutputPool (fill, rerun, rerun needing one more batch, rerun after '
               'remove_store, rerun after replacing the summary/distance operation) are executed on the real '
               'PoolLoader/OutputPool/ComputationContext/Executor code next to pool-free runs of the same model. All stochastic '
               'nodes of a batch draw from one stand-in generator whose k-th draw for batch b is the symbol g_b_k, so a node '
               'that stops drawing because it was loaded from the pool shifts the draws of every later node, exactly as with '
               'numpy.RandomState; simulator/summary/discrepancy are uninterpreted functions of their inputs.')
ASSUMPTIONS = [
    'the batch generator built by RandomStateLoader from get_sub_seed(seed, b) yields a stream that depends on (seed, b) '
    'only (C15); draws are arbitrary reals',
    'operations are deterministic functions of their inputs and draws (uninterpreted functions)',
    'main claim: in a batch in which a stochastic node is loaded from the pool, no other stochastic node executes after it '
    '(complement = known finding C05/stochastic-after-loaded-stochastic, probed separately: an unstored second simulator, and '
    'a pool left with the parameters only after the simulator\'s store was removed)',
    'a replaced summary/distance node (and anything computed from it) is not held by the pool (the user removed those '
    'stores, as the documentation of OutputPool instructs)',
    'number of finite admissible draws >= n_samples (C01 finding region excluded)',
]
OUTSIDE = ['ArrayPool on disk with symbolic payload (.npy cannot hold terms; the file layer is C06)', 'more than 3 batches',
           'OutputPool.save/open pickling']


class BatchRS:
    """Stand-in for numpy.random.RandomState(sub_seed): k-th value drawn for batch b is the symbol g_b_k."""
    world = None

    def __init__(self, seed=None):
        self.seed_value = seed
        self.pos = 0

    def take(self, n):
        w = BatchRS.world
        b = w.batch_of.get(int(self.seed_value))
        if b is None:
            raise core.Cut('generator of an unknown batch')
        out = []
        for _ in range(n):
            out.append(w.ctx.real('g_%d_%d' % (b, self.pos)))
            self.pos += 1
        return b, out


class PoolWorld:
    """t (prior) -> sim -> s -> d ; optionally a second stochastic parent `late` of d."""

    def __init__(self, ctx, bs, K, seed=11, late=None):
        self.ctx = ctx
        self.bs = bs
        self.K = K
        self.seed = seed
        self.calls = collections.Counter()
        self.version = {'s': 0, 'd': 0}
        self.batch_of = {int(elfi.utils.get_sub_seed(seed, b)): b for b in range(K + 1)}
        self.late = late
        BatchRS.world = self
        self.model = self._build()

    def _arr(self, vals):
        return self.ctx.array(vals)

    def _build(self):
        w = self
        ctx = self.ctx

        class PriorDist:
            @staticmethod
            def rvs(*params, size=None, random_state=None):
                b, v = random_state.take(size[0])
                w.calls[('t', b)] += 1
                return w._arr(v)

        class LateDist:
            @staticmethod
            def rvs(*params, size=None, random_state=None):
                b, v = random_state.take(size[0])
                w.calls[(w.late, b)] += 1
                return w._arr(v)

        def sim(t, batch_size=1, random_state=None, meta=None):
            b, v = random_state.take(batch_size)
            w.calls[('sim', b)] += 1
            return w._arr([ctx.apply_uf('SIM', [ti, vi]) for ti, vi in zip(t, v)])

        def mk_summ(ver):
            def summ(y, meta=None):
                if meta is None:
                    return np.zeros((1,))
                w.calls[('s', meta['batch_index'])] += 1
                return w._arr([ctx.apply_uf('SUMM%d' % ver, [yi]) for yi in y])
            return summ

        def mk_disc(ver):
            def disc(s, *late, observed=None, meta=None):
                w.calls[('d', meta['batch_index'])] += 1
                if late:
                    return w._arr([ctx.apply_uf('DISCL%d' % ver, [si, li]) for si, li in zip(s, late[0])])
                return w._arr([ctx.apply_uf('DISC%d' % ver, [si]) for si in s])
            return disc
        self.mk_summ, self.mk_disc = mk_summ, mk_disc
        m = elfi.ElfiModel()
        t = elfi.Prior(PriorDist, model=m, name='t')
        simn = elfi.Simulator(sim, t, observed=np.zeros((1, 1)), model=m, name='sim')
        simn.uses_meta = True
        sn = elfi.Summary(mk_summ(0), simn, model=m, name='s')
        sn.uses_meta = True
        parents = [sn]
        if self.late:
            # a second, independent simulator (stochastic, observed) feeding the distance next to the summary
            def late_sim(batch_size=1, random_state=None):
                b, v = random_state.take(batch_size)
                w.calls[(w.late, b)] += 1
                return w._arr(v)
            parents.append(elfi.Simulator(late_sim, observed=np.zeros((1,)), model=m, name=self.late))
        dn = elfi.Discrepancy(mk_disc(0), *parents, model=m, name='d')
        dn.uses_meta = True
        return m

    def replace(self, node):
        """The user replaces the summary or the distance operation by another function."""
        self.version[node] += 1
        op = self.mk_summ(self.version['s']) if node == 's' else self.mk_disc(self.version['d'])
        self.model.get_node(node)['attr_dict']['_operation'] = op

    def env(self):
        loader_np = NPFacade(random=_Sub(np.random, {'RandomState': BatchRS}))
        b = [(elfi.loader, {'np': loader_np})]
        b += std_bindings([smp, pinf, mu, mres], shadow_builtins=True)
        return patched(b)


STORED_SETS = [('sim',), ('s',), ('d',), ('sim', 's'), ('sim', 's', 'd'), ('t', 'sim'), ('t', 'sim', 's', 'd'), ('t', 's')]


def run(w, n, nb, pool, again=False):
    if again and getattr(w, 'last_sampler', None) is not None:
        r = w.last_sampler          # the user calls .sample() once more on the same sampler object
    else:
        r = elfi.Rejection(w.model['d'], batch_size=w.bs, seed=w.seed, output_names=['s'], pool=pool)
    if pool is not None:
        w.last_sampler = r
    return r.sample(n, n_sim=nb * w.bs, bar=False)


def same_sample(ctx, tag, a, b, n):
    for k in ('t', 's', 'd'):
        ctx.claim('%s_same_%s' % (tag, k), len(a.outputs[k]) == len(b.outputs[k]) and
                  And(*[close(a.outputs[k][j], b.outputs[k][j]) for j in range(n)]))
    ctx.claim('%s_same_threshold_nsim' % tag, And(close(a.threshold, b.threshold), a.n_sim == b.n_sim))


def finite_enough(ctx, sample, n):
    # all discrepancies here are finite UF values: nothing to assume (C01's finding needs +inf)
    return


def h_pool_history(ctx, bs, n, stored_idx, script, late=None, late_stored=False):
    """script: sequence of steps from {'fill','rerun','more','remove:<node>','replace:s','replace:d'}."""
    w = PoolWorld(ctx, bs, K=3, late=late)
    stored = STORED_SETS[stored_idx] + ((late,) if late and late_stored else ())
    with w.env():
        pool = elfi.OutputPool(list(stored))
        nb = 1
        step = 0
        for op in script:
            step += 1
            if op == 'more':
                nb += 1
            elif op.startswith('remove:'):
                nd = op.split(':')[1]
                if pool.has_store(nd):
                    pool.remove_store(nd)
            elif op.startswith('replace:') or op.startswith('replace+readd:'):
                nd = op.split(':')[1]
                # stale stores of the replaced node and of what is computed from it are dropped by the user ...
                for x in (['s', 'd'] if nd == 's' else ['d']):
                    if pool.has_store(x):
                        pool.remove_store(x)
                        if op.startswith('replace+readd:'):
                            pool.add_store(x)      # ... and, in this variant, added again empty to be refilled
                w.replace(nd)
            held_before = {nd: set(pool.stores[nd].keys()) if pool.stores.get(nd) is not None else set()
                           for nd in pool.stores}
            calls_before = dict(w.calls)
            sp = run(w, n, nb, pool, again=(op == 'again'))
            calls_mid = dict(w.calls)
            # reference: the same seeded run without a pool
            sr = run(w, n, nb, None)
            tag = 'step%d_%s' % (step, op.replace(':', '_').replace('+', '_'))
            same_sample(ctx, tag, sp, sr, n)
            # a stored node's operation is never invoked for a batch the pool held
            for nd, held in held_before.items():
                for b in held:
                    ctx.claim('%s_no_recompute_%s_b%d' % (tag, nd, b),
                              calls_mid.get((nd, b), 0) == calls_before.get((nd, b), 0))
            # pool holds exactly the consumed batches, with the values of a fresh computation
            fresh = elfi.OutputPool(list(pool.stores.keys()))
            rf = elfi.Rejection(w.model['d'], batch_size=w.bs, seed=w.seed, output_names=['s'], pool=fresh)
            rf.sample(n, n_sim=nb * w.bs, bar=False)
            for nd in pool.stores:
                st = pool.stores[nd] or {}
                fs = fresh.stores[nd] or {}
                ctx.claim('%s_pool_batches_%s' % (tag, nd), sorted(st.keys()) == list(range(nb)))
                ctx.claim('%s_pool_values_%s' % (tag, nd),
                          And(*[close(st[b][i], fs[b][i]) for b in sorted(st.keys()) if b in fs for i in range(bs)]))


def h_context_refusal(ctx, bs):
    w = PoolWorld(ctx, bs, K=2)
    with w.env():
        pool = elfi.OutputPool(['sim'])
        run(w, 1, 1, pool)
        other_bs = bs + 1 + ctx.choice('bs_delta', 2)
        other_seed = (0, w.seed + 1)[ctx.choice('seed_sel', 2)]
        res = {}
        for tag, kw in (('batch_size', dict(batch_size=other_bs, seed=w.seed)), ('seed', dict(batch_size=bs, seed=other_seed)),
                        ('same', dict(batch_size=bs, seed=w.seed)), ('defaults', dict())):
            try:
                c = em.ComputationContext(pool=pool, **kw)
                res[tag] = ('ok', c.batch_size, c.seed)
            except ValueError:
                res[tag] = ('raised',)
        # through the public sampler API too
        try:
            elfi.Rejection(w.model['d'], batch_size=other_bs, seed=w.seed, pool=pool)
            res['sampler_bs'] = ('ok',)
        except ValueError:
            res['sampler_bs'] = ('raised',)
    ctx.claim('other_batch_size_refused', res['batch_size'] == ('raised',))
    ctx.claim('other_seed_refused', res['seed'] == ('raised',))
    ctx.claim('same_context_accepted', res['same'] == ('ok', bs, w.seed))
    ctx.claim('defaults_taken_from_pool', res['defaults'] == ('ok', bs, w.seed))
    ctx.claim('sampler_with_other_batch_size_refused', res['sampler_bs'] == ('raised',))


SCRIPTS = {
    'fill_rerun': ['fill', 'rerun'],
    'fill_more': ['fill', 'more'],
    'fill_rerun_more': ['fill', 'rerun', 'more'],
    'fill_replace_d': ['fill', 'replace:d'],
    'fill_replace_s': ['fill', 'replace:s'],
    'fill_remove_sim': ['fill', 'remove:sim'],
    'fill_more_replace_s_more': ['fill', 'more', 'replace:s', 'more'],
    'fill_more_again': ['fill', 'more', 'again'],
    'fill_more_replace_readd_s': ['fill', 'more', 'replace+readd:s', 'rerun'],
}

HARNESSES = []
for si, st in enumerate(STORED_SETS):
    for sname in ('fill_rerun_more', 'fill_replace_d', 'fill_replace_s', 'fill_remove_sim'):
        quick = (si in (0, 1, 4, 6) and sname in ('fill_rerun_more', 'fill_replace_s')) or (si == 0 and sname == 'fill_remove_sim')
        # removing the simulator's store from a pool that also holds the parameters leaves a loaded stochastic node (t)
        # followed by an executing one (sim): the region of the known finding
        shifted = 't' in st and 'sim' in st and sname == 'fill_remove_sim' and not ({'s', 'd'} & set(st))
        HARNESSES.append(H('pool_%s_%s' % ('+'.join(st), sname), h_pool_history,
                           dict(bs=2, n=2, stored_idx=si, script=SCRIPTS[sname]),
                           finding='C05/stochastic-after-loaded-stochastic' if shifted else None,
                           finding_claims=('_same_t', '_same_s', '_same_d', '_same_threshold') if shifted else None,
                           tiers=('quick', 'thorough') if quick else ('thorough',),
                           bounds='batch_size=2 n_samples=2 stored=%s script=%s (<=3 batches)' % (list(st), SCRIPTS[sname])))
HARNESSES += [
    H('pool_sim_long_script_bs1', h_pool_history, dict(bs=1, n=1, stored_idx=0, script=SCRIPTS['fill_more_replace_s_more']),
      bounds='batch_size=1 n=1 stored=[sim] script=fill,more,replace:s,more'),
    H('pool_sim_same_sampler_again', h_pool_history, dict(bs=2, n=2, stored_idx=0, script=SCRIPTS['fill_more_again']),
      bounds='batch_size=2 n=2 stored=[sim] script=fill,more,again (sample() called again on the same sampler object)'),
    H('pool_s_same_sampler_again', h_pool_history, dict(bs=1, n=1, stored_idx=1, script=SCRIPTS['fill_more_again']),
      bounds='batch_size=1 n=1 stored=[s] script=fill,more,again'),
    H('pool_sim+s+d_replace_readd_s_bs1', h_pool_history, dict(bs=1, n=1, stored_idx=4, script=SCRIPTS['fill_more_replace_readd_s']),
      bounds='batch_size=1 n=1 stored=[sim,s,d] script=fill,more,replace s and re-add empty stores for s and d,rerun'),
    H('pool_sim+s+d_replace_readd_s', h_pool_history, dict(bs=2, n=2, stored_idx=4, script=SCRIPTS['fill_more_replace_readd_s']),
      bounds='batch_size=2 n=2 stored=[sim,s,d] script=fill,more,replace s and re-add empty stores for s and d,rerun',
      tiers=('thorough',)),
    H('context_refusal', h_context_refusal, dict(bs=2), bounds='batch_size 2 vs 3..4, seed 11 vs {0, 12}'),
    # stochastic node `late` (a second prior feeding the distance) that is stored together with the simulator: fine
    H('late_stored_zz', h_pool_history, dict(bs=2, n=2, stored_idx=0, script=SCRIPTS['fill_rerun_more'], late='zz', late_stored=True),
      bounds='second simulator feeding d, named zz (executes after sim), stored together with sim'),
    H('late_unstored_executes_before_sim', h_pool_history,
      dict(bs=2, n=2, stored_idx=0, script=SCRIPTS['fill_rerun_more'], late='a', late_stored=False),
      bounds='second simulator feeding d, named a: executes BEFORE t and sim; not stored'),
    # known finding: unstored stochastic node executing after the stored simulator
    H('late_unstored_executes_after_sim', h_pool_history,
      dict(bs=2, n=2, stored_idx=0, script=SCRIPTS['fill_rerun'], late='zz', late_stored=False),
      finding='C05/stochastic-after-loaded-stochastic', finding_claims=('_same_t', '_same_s', '_same_d', '_same_threshold'),
      bounds='second simulator feeding d, named zz: executes AFTER sim; sim stored, zz not'),
]

MANIFEST = {
    'level_text': 'Bounded symbolic execution of the real pool/loader/context/executor code under whole Rejection runs: for every '
                  'value of the batch generators\' draws and every simulator/summary/distance function (uninterpreted), each run of '
                  'each listed history over one OutputPool returns term-for-term the Sample of the pool-free run; stored operations '
                  'are not re-invoked for held batches; the pool ends up with exactly the consumed batches and the values of a '
                  'fresh computation; foreign batch_size/seed are refused.',
    'level_note': 'in-memory OutputPool only; 8 stored-node sets x 4 histories (thorough), batch_size 2, n=2, <=3 batches; shared '
                  'per-batch generator modelled by position-named draws; the unstored-stochastic-node-after-stored-simulator case '
                  'is known finding C05/stochastic-after-loaded-stochastic. z3 trusted.',
}
