"""C05 Output pools are transparent: reuse never changes results or re-simulates."""
import collections

import numpy as np

import elfi
import elfi.loader
import elfi.utils
import elfi.store
import elfi.model.elfi_model as em
import elfi.methods.utils as mu
import elfi.methods.results as mres
import elfi.methods.inference.samplers as smp
import elfi.methods.inference.parameter_inference as pinf

from symx import core
from symx.core import And, Or, Not, Implies, Sum, If, close, count_true, INF
from symx.explore import H
from symx.npfacade import patched, std_bindings, NPFacade, _Sub

PROPERTY = 'C05'
EXPLANATION = ('Seeded Rejection runs over one in-memory OutputPool (fill, rerun, rerun needing one more batch, rerun after '
               'remove_store, rerun after replacing the summary/distance operation) are executed on the real '
               'PoolLoader/OutputPool/ComputationContext/Executor code next to pool-free runs of the same model. All stochastic '
               'nodes of a batch draw from one stand-in generator whose k-th draw for batch b is the symbol g_b_k, so a node '
               'that stops drawing because it was loaded from the pool shifts the draws of every later node, exactly as with '
               'numpy.RandomState; simulator/summary/discrepancy are uninterpreted functions of their inputs.')
ASSUMPTIONS = [
    'the batch generator built by RandomStateLoader from get_sub_seed(seed, b) yields a stream that depends on (seed, b) '
    'only (C15); draws are arbitrary reals',
    'operations are deterministic functions of their inputs and draws (uninterpreted functions)',
    'main claim: in a batch in which a stochastic node is loaded from the pool, no other stochastic node executes after it '
    '(complement = known finding C05/stochastic-after-loaded-stochastic, probed separately: an unstored second simulator, and '
    'a pool left with the parameters only after the simulator\'s store was removed)',
    'a replaced summary/distance node (and anything computed from it) is not held by the pool (the user removed those '
    'stores, as the documentation of OutputPool instructs)',
    'number of finite admissible draws >= n_samples (C01 finding region excluded)',
]
OUTSIDE = ['ArrayPool on disk with symbolic payload (.npy cannot hold terms): the on-disk histories run with fixed distinct numbers '
           'and fixed arithmetic node functions, only the script, stored set and batch size are solver-chosen there (the file layer '
           'itself is C06)', 'more than 3 batches']


class BatchRS:
    """Stand-in for numpy.random.RandomState(sub_seed): k-th value drawn for batch b is the symbol g_b_k."""
    world = None

    def __init__(self, seed=None):
        self.seed_value = seed
        self.pos = 0

    def take(self, n):
        w = BatchRS.world
        b = w.batch_of.get(int(self.seed_value))
        if b is None:
            raise core.Cut('generator of an unknown batch')
        out = []
        for _ in range(n):
            out.append(w.draw(b, self.pos))
            self.pos += 1
        return b, out


class PoolWorld:
    """t (prior) -> sim -> s -> d ; optionally a second stochastic parent `late` of d."""

    def __init__(self, ctx, bs, K, seed=11, late=None, concrete_payload=False):
        self.ctx = ctx
        self.concrete_payload = concrete_payload
        self.bs = bs
        self.K = K
        self.seed = seed
        self.calls = collections.Counter()
        self.version = {'s': 0, 'd': 0}
        self.batch_of = {int(elfi.utils.get_sub_seed(seed, b)): b for b in range(K + 1)}
        self.late = late
        BatchRS.world = self
        self.model = self._build()

    def _arr(self, vals):
        if self.concrete_payload:
            return np.array([float(v) for v in vals], dtype=float)
        return self.ctx.array(vals)

    def draw(self, b, k):
        """k-th value of batch b's generator: the symbol g_b_k, or (on-disk pools: .npy cannot hold terms) a fixed
        number that is different for every (b, k)."""
        if self.concrete_payload:
            return ((b * 7 + k * 3 + 1) * 0.6180339887) % 1.0 * 2 - 1
        return self.ctx.real('g_%d_%d' % (b, k))

    def uf(self, name, args):
        if not self.concrete_payload:
            return self.ctx.apply_uf(name, args)
        ver = int(name[-1]) if name[-1].isdigit() else 0
        a = [float(x) for x in args]
        if name == 'SIM':
            return 0.37 * a[0] + 1.91 * a[1] + 0.5 * a[0] * a[1] + 3.0
        if name.startswith('SUMM'):
            return a[0] * (1.1 + ver) + 0.01 * ver
        if name.startswith('DISCL'):
            return abs(a[0]) * (1 + 0.3 * ver) + 0.001 * ver + 0.17 * a[1]
        return abs(a[0]) * (1 + 0.3 * ver) + 0.001 * ver

    def _build(self):
        w = self
        ctx = self.ctx

        class PriorDist:
            @staticmethod
            def rvs(*params, size=None, random_state=None):
                b, v = random_state.take(size[0])
                w.calls[('t', b)] += 1
                return w._arr(v)

        class LateDist:
            @staticmethod
            def rvs(*params, size=None, random_state=None):
                b, v = random_state.take(size[0])
                w.calls[(w.late, b)] += 1
                return w._arr(v)

        def sim(t, batch_size=1, random_state=None, meta=None):
            b, v = random_state.take(batch_size)
            w.calls[('sim', b)] += 1
            return w._arr([w.uf('SIM', [ti, vi]) for ti, vi in zip(t, v)])

        def mk_summ(ver):
            def summ(y, meta=None):
                if meta is None:
                    return np.zeros((1,))
                w.calls[('s', meta['batch_index'])] += 1
                return w._arr([w.uf('SUMM%d' % ver, [yi]) for yi in y])
            return summ

        def mk_disc(ver):
            def disc(s, *late, observed=None, meta=None):
                w.calls[('d', meta['batch_index'])] += 1
                if late:
                    return w._arr([w.uf('DISCL%d' % ver, [si, li]) for si, li in zip(s, late[0])])
                return w._arr([w.uf('DISC%d' % ver, [si]) for si in s])
            return disc
        self.mk_summ, self.mk_disc = mk_summ, mk_disc
        m = elfi.ElfiModel()
        t = elfi.Prior(PriorDist, model=m, name='t')
        simn = elfi.Simulator(sim, t, observed=np.zeros((1, 1)), model=m, name='sim')
        simn.uses_meta = True
        sn = elfi.Summary(mk_summ(0), simn, model=m, name='s')
        sn.uses_meta = True
        parents = [sn]
        if self.late:
            # a second, independent simulator (stochastic, observed) feeding the distance next to the summary
            def late_sim(batch_size=1, random_state=None):
                b, v = random_state.take(batch_size)
                w.calls[(w.late, b)] += 1
                return w._arr(v)
            parents.append(elfi.Simulator(late_sim, observed=np.zeros((1,)), model=m, name=self.late))
        dn = elfi.Discrepancy(mk_disc(0), *parents, model=m, name='d')
        dn.uses_meta = True
        return m

    def replace(self, node):
        """The user replaces the summary or the distance operation by another function."""
        self.version[node] += 1
        op = self.mk_summ(self.version['s']) if node == 's' else self.mk_disc(self.version['d'])
        self.model.get_node(node)['attr_dict']['_operation'] = op

    def env(self):
        loader_np = NPFacade(random=_Sub(np.random, {'RandomState': BatchRS}))
        b = [(elfi.loader, {'np': loader_np})]
        b += std_bindings([smp, pinf, mu, mres], shadow_builtins=True)
        return patched(b)


STORED_SETS = [('sim',), ('s',), ('d',), ('sim', 's'), ('sim', 's', 'd'), ('t', 'sim'), ('t', 'sim', 's', 'd'), ('t', 's')]


def run(w, n, nb, pool, again=False):
    if again and getattr(w, 'last_sampler', None) is not None:
        r = w.last_sampler          # the user calls .sample() once more on the same sampler object
    else:
        r = elfi.Rejection(w.model['d'], batch_size=w.bs, seed=w.seed, output_names=['s'], pool=pool)
    if pool is not None:
        w.last_sampler = r
    return r.sample(n, n_sim=nb * w.bs, bar=False)


def same_sample(ctx, tag, a, b, n):
    for k in ('t', 's', 'd'):
        ctx.claim('%s_same_%s' % (tag, k), len(a.outputs[k]) == len(b.outputs[k]) and
                  And(*[close(a.outputs[k][j], b.outputs[k][j]) for j in range(n)]))
    ctx.claim('%s_same_threshold_nsim' % tag, And(close(a.threshold, b.threshold), a.n_sim == b.n_sim))


def finite_enough(ctx, sample, n):
    # all discrepancies here are finite UF values: nothing to assume (C01's finding needs +inf)
    return


def finding_region(stored, script):
    """True when some step of the script leaves the pool holding the parameters (a stochastic node that is then loaded)
    while the simulator has to execute (neither it nor the summary is held): the region of the known finding
    C05/stochastic-after-loaded-stochastic (the simulator then draws what the prior would have drawn)."""
    held = set(stored)
    for op in script:
        if op.startswith('remove:'):
            held.discard(op.split(':')[1])
        elif op.startswith('replace:') or op.startswith('replace+readd:'):
            # (re-added stores are empty: for the batches the pool holds they count as not held)
            held -= {'s', 'd'} if op.split(':')[1] == 's' else {'d'}
        if 't' in held and 'sim' not in held and 's' not in held:
            return True
    return False


def held_batches(store):
    if store is None:
        return set()
    if hasattr(store, 'keys'):
        return set(store.keys())
    return set(range(len(store)))          # array stores hold batches 0..len-1


def h_pool_history(ctx, bs, n, stored_idx, script, late=None, late_stored=False, pool_kind='memory'):
    """script: sequence of steps from {'fill','rerun','more','remove:<node>','replace:s','replace:d'}."""
    import shutil
    import tempfile
    on_disk = pool_kind == 'array'
    if stored_idx is None:
        stored_idx = ctx.choice('stored_set', len(STORED_SETS))
    if isinstance(script, str):
        script = SCRIPTS[script]
    if bs is None:
        bs = 1 + ctx.choice('batch_size_minus_1', 2)
        n = bs
    w = PoolWorld(ctx, bs, K=3, late=late, concrete_payload=on_disk)
    stored = STORED_SETS[stored_idx] + ((late,) if late and late_stored else ())
    if on_disk and finding_region(stored, script):
        raise core.Infeasible()       # region of the known finding (probed by the in-memory pool_t+..._ harnesses)
    tmp = tempfile.mkdtemp(prefix='symx_c05_') if on_disk else None
    try:
        with w.env():
            _pool_history(ctx, w, bs, n, stored, script, on_disk, tmp)
    finally:
        if tmp:
            shutil.rmtree(tmp, ignore_errors=True)


def _pool_history(ctx, w, bs, n, stored, script, on_disk, tmp):
    if True:
        pool = elfi.ArrayPool(list(stored), name='pool', prefix=tmp) if on_disk else elfi.OutputPool(list(stored))
        nb = 1
        step = 0
        model = {}
        for op in script:
            step += 1
            if op == 'more':
                nb += 1
            elif op == 'reopen':
                # on disk: the user flushes and closes the pool, then works on with the files opened afresh
                if on_disk:
                    pool.flush()
                    for nd in list(pool.stores):
                        if pool.stores[nd] is not None:
                            pool.stores[nd].close()
                            pool.stores[nd] = None
                            pool.add_store(nd)        # opens the existing file
            elif op.startswith('remove:'):
                nd = op.split(':')[1]
                if pool.has_store(nd):
                    st = pool.remove_store(nd)
                    model.pop(nd, None)
                    if on_disk and st is not None:
                        st.close()
            elif op.startswith('replace:') or op.startswith('replace+readd:'):
                nd = op.split(':')[1]
                # stale stores of the replaced node and of what is computed from it are dropped by the user ...
                for x in (['s', 'd'] if nd == 's' else ['d']):
                    if pool.has_store(x):
                        st = pool.remove_store(x)
                        if on_disk and st is not None:
                            if op.startswith('replace+readd:'):
                                st.clear()     # the file stays on disk: dropping its content is part of dropping the store
                            st.close()
                        model.pop(x, None)
                        if op.startswith('replace+readd:'):
                            pool.add_store(x)      # ... and, in this variant, added again empty to be refilled
                w.replace(nd)
            # what the pool must hold according to the history (independent of what the stores report)
            for nd in list(model):
                if nd not in pool.stores:
                    del model[nd]
            for nd in pool.stores:
                model.setdefault(nd, set())
            tag0 = 'step%d_%s' % (step, op.replace(':', '_').replace('+', '_'))
            for nd in pool.stores:
                ctx.claim('%s_before_run_store_%s_reports_the_batches_added_so_far' % (tag0, nd),
                          held_batches(pool.stores[nd]) == model[nd])
            held_before = {nd: set(model[nd]) for nd in pool.stores}
            calls_before = dict(w.calls)
            sp = run(w, n, nb, pool, again=(op == 'again'))
            for nd in pool.stores:
                model[nd] = set(range(nb))
            calls_mid = dict(w.calls)
            # reference: the same seeded run without a pool
            sr = run(w, n, nb, None)
            tag = 'step%d_%s' % (step, op.replace(':', '_').replace('+', '_'))
            same_sample(ctx, tag, sp, sr, n)
            # a stored node's operation is never invoked for a batch the pool held
            for nd, held in held_before.items():
                for b in held:
                    ctx.claim('%s_no_recompute_%s_b%d' % (tag, nd, b),
                              calls_mid.get((nd, b), 0) == calls_before.get((nd, b), 0))
            # pool holds exactly the consumed batches, with the values of a fresh computation
            fresh = elfi.OutputPool(list(pool.stores.keys()))
            rf = elfi.Rejection(w.model['d'], batch_size=w.bs, seed=w.seed, output_names=['s'], pool=fresh)
            rf.sample(n, n_sim=nb * w.bs, bar=False)
            for nd in pool.stores:
                st = pool.stores[nd]
                fs = fresh.stores[nd] or {}
                held = sorted(held_batches(st))
                ctx.claim('%s_pool_batches_%s' % (tag, nd), held == list(range(nb)))
                ctx.claim('%s_pool_values_%s' % (tag, nd),
                          And(*[close(st[b][i], fs[b][i]) for b in held if b in fs for i in range(bs)]))
        if on_disk:
            # what is on disk after flush + close is what a fresh computation gives (files loaded with numpy itself)
            import os
            pool.flush()
            pool.close()
            for nd in pool.stores:
                if fresh.stores.get(nd) is None:
                    continue
                arr = np.load(os.path.join(tmp, 'pool', nd + '.npy'))
                want = np.concatenate([np.asarray(fresh.stores[nd][b], dtype=float) for b in range(nb)], axis=0)
                ctx.claim('final_file_of_%s_is_the_fresh_computation' % nd, arr.shape == want.shape and bool(np.array_equal(arr, want)))
            # the closed pool opened again (OutputPool.save / open, real pickle) serves the same batches without re-simulation
            pool2 = elfi.ArrayPool.open('pool', prefix=tmp)
            ctx.claim('reopened_pool_has_the_stores_and_context', sorted(pool2.stores) == sorted(pool.stores) and
                      pool2.batch_size == bs and pool2.seed == w.seed)
            held2 = {nd: held_batches(pool2.stores[nd]) for nd in pool2.stores}
            for nd in pool2.stores:
                if fresh.stores.get(nd) is not None:
                    ctx.claim('reopened_pool_batches_%s' % nd, sorted(held2[nd]) == list(range(nb)))
            calls_before = dict(w.calls)
            w.last_sampler = None
            sp2 = run(w, n, nb, pool2)
            calls_mid = dict(w.calls)
            same_sample(ctx, 'reopened_pool', sp2, run(w, n, nb, None), n)
            for nd, held in held2.items():
                for b in held:
                    ctx.claim('reopened_pool_no_recompute_%s_b%d' % (nd, b), calls_mid.get((nd, b), 0) == calls_before.get((nd, b), 0))
            pool2.close()


def h_context_refusal(ctx, bs):
    w = PoolWorld(ctx, bs, K=2)
    with w.env():
        pool = elfi.OutputPool(['sim'])
        run(w, 1, 1, pool)
        other_bs = bs + 1 + ctx.choice('bs_delta', 2)
        other_seed = (0, w.seed + 1)[ctx.choice('seed_sel', 2)]
        res = {}
        for tag, kw in (('batch_size', dict(batch_size=other_bs, seed=w.seed)), ('seed', dict(batch_size=bs, seed=other_seed)),
                        ('same', dict(batch_size=bs, seed=w.seed)), ('defaults', dict())):
            try:
                c = em.ComputationContext(pool=pool, **kw)
                res[tag] = ('ok', c.batch_size, c.seed)
            except ValueError:
                res[tag] = ('raised',)
        # through the public sampler API too
        try:
            elfi.Rejection(w.model['d'], batch_size=other_bs, seed=w.seed, pool=pool)
            res['sampler_bs'] = ('ok',)
        except ValueError:
            res['sampler_bs'] = ('raised',)
    ctx.claim('other_batch_size_refused', res['batch_size'] == ('raised',))
    ctx.claim('other_seed_refused', res['seed'] == ('raised',))
    ctx.claim('same_context_accepted', res['same'] == ('ok', bs, w.seed))
    ctx.claim('defaults_taken_from_pool', res['defaults'] == ('ok', bs, w.seed))
    ctx.claim('sampler_with_other_batch_size_refused', res['sampler_bs'] == ('raised',))


SCRIPTS = {
    'fill_rerun': ['fill', 'rerun'],
    'fill_more': ['fill', 'more'],
    'fill_rerun_more': ['fill', 'rerun', 'more'],
    'fill_replace_d': ['fill', 'replace:d'],
    'fill_replace_s': ['fill', 'replace:s'],
    'fill_remove_sim': ['fill', 'remove:sim'],
    'fill_more_replace_s_more': ['fill', 'more', 'replace:s', 'more'],
    'fill_more_again': ['fill', 'more', 'again'],
    'fill_more_replace_readd_s': ['fill', 'more', 'replace+readd:s', 'rerun'],
}

HARNESSES = []
for si, st in enumerate(STORED_SETS):
    for sname in ('fill_rerun_more', 'fill_replace_d', 'fill_replace_s', 'fill_remove_sim'):
        quick = (si in (0, 1, 4, 6) and sname in ('fill_rerun_more', 'fill_replace_s')) or (si == 0 and sname == 'fill_remove_sim')
        # removing the simulator's store from a pool that also holds the parameters leaves a loaded stochastic node (t)
        # followed by an executing one (sim): the region of the known finding
        shifted = finding_region(st, SCRIPTS[sname])
        HARNESSES.append(H('pool_%s_%s' % ('+'.join(st), sname), h_pool_history,
                           dict(bs=2, n=2, stored_idx=si, script=SCRIPTS[sname]),
                           finding='C05/stochastic-after-loaded-stochastic' if shifted else None,
                           finding_claims=('_same_t', '_same_s', '_same_d', '_same_threshold') if shifted else None,
                           tiers=('quick', 'thorough') if quick else ('thorough',),
                           bounds='batch_size=2 n_samples=2 stored=%s script=%s (<=3 batches)' % (list(st), SCRIPTS[sname])))
HARNESSES += [
    H('pool_sim_long_script_bs1', h_pool_history, dict(bs=1, n=1, stored_idx=0, script=SCRIPTS['fill_more_replace_s_more']),
      bounds='batch_size=1 n=1 stored=[sim] script=fill,more,replace:s,more'),
    H('pool_sim_same_sampler_again', h_pool_history, dict(bs=2, n=2, stored_idx=0, script=SCRIPTS['fill_more_again']),
      bounds='batch_size=2 n=2 stored=[sim] script=fill,more,again (sample() called again on the same sampler object)'),
    H('pool_s_same_sampler_again', h_pool_history, dict(bs=1, n=1, stored_idx=1, script=SCRIPTS['fill_more_again']),
      bounds='batch_size=1 n=1 stored=[s] script=fill,more,again'),
    H('pool_sim+s+d_replace_readd_s_bs1', h_pool_history, dict(bs=1, n=1, stored_idx=4, script=SCRIPTS['fill_more_replace_readd_s']),
      bounds='batch_size=1 n=1 stored=[sim,s,d] script=fill,more,replace s and re-add empty stores for s and d,rerun'),
    H('pool_sim+s+d_replace_readd_s', h_pool_history, dict(bs=2, n=2, stored_idx=4, script=SCRIPTS['fill_more_replace_readd_s']),
      bounds='batch_size=2 n=2 stored=[sim,s,d] script=fill,more,replace s and re-add empty stores for s and d,rerun',
      tiers=('thorough',)),
    H('context_refusal', h_context_refusal, dict(bs=2), bounds='batch_size 2 vs 3..4, seed 11 vs {0, 12}'),
    # stochastic node `late` (a second prior feeding the distance) that is stored together with the simulator: fine
    H('late_stored_zz', h_pool_history, dict(bs=2, n=2, stored_idx=0, script=SCRIPTS['fill_rerun_more'], late='zz', late_stored=True),
      bounds='second simulator feeding d, named zz (executes after sim), stored together with sim'),
    H('late_unstored_executes_before_sim', h_pool_history,
      dict(bs=2, n=2, stored_idx=0, script=SCRIPTS['fill_rerun_more'], late='a', late_stored=False),
      bounds='second simulator feeding d, named a: executes BEFORE t and sim; not stored'),
    # known finding: unstored stochastic node executing after the stored simulator
    H('late_unstored_executes_after_sim', h_pool_history,
      dict(bs=2, n=2, stored_idx=0, script=SCRIPTS['fill_rerun'], late='zz', late_stored=False),
      finding='C05/stochastic-after-loaded-stochastic', finding_claims=('_same_t', '_same_s', '_same_d', '_same_threshold'),
      bounds='second simulator feeding d, named zz: executes AFTER sim; sim stored, zz not'),
]

# on-disk ArrayPool: the same histories on real .npy files in a scratch directory (concrete payload; the stored node set,
# batch size and script are solver-chosen)
SCRIPTS['fill_more_reopen_more'] = ['fill', 'more', 'reopen', 'more']
SCRIPTS['fill_reopen_rerun_replace_d_more'] = ['fill', 'reopen', 'rerun', 'replace:d', 'more']
for sname in ('fill_rerun_more', 'fill_replace_d', 'fill_replace_s', 'fill_remove_sim', 'fill_more_replace_s_more', 'fill_more_again',
              'fill_more_replace_readd_s', 'fill_more_reopen_more', 'fill_reopen_rerun_replace_d_more'):
    HARNESSES.append(H('arraypool_%s' % sname, h_pool_history, dict(bs=None, n=None, stored_idx=None, script=sname, pool_kind='array'),
                       bounds='on-disk ArrayPool (real .npy files), script %s, every stored set of %d, batch_size in {1,2}' % (
                           SCRIPTS[sname], len(STORED_SETS)), witness=False))

MANIFEST = {
    'level_text': 'Bounded symbolic execution of the real pool/loader/context/executor code under whole Rejection runs: for every '
                  'value of the batch generators\' draws and every simulator/summary/distance function (uninterpreted), each run of '
                  'each listed history over one OutputPool returns term-for-term the Sample of the pool-free run; stored operations '
                  'are not re-invoked for held batches; the pool ends up with exactly the consumed batches and the values of a '
                  'fresh computation; foreign batch_size/seed are refused.',
    'level_note': 'in-memory OutputPool with symbolic payload: 8 stored-node sets x 4 histories (thorough), batch_size 2, n=2, <=3 batches; shared '
                  'per-batch generator modelled by position-named draws; the unstored-stochastic-node-after-stored-simulator case '
                  'is known finding C05/stochastic-after-loaded-stochastic; on-disk ArrayPool (real .npy files, pool close/open) with fixed concrete payload: script, stored set and batch size solver-chosen. z3 trusted.',
}
