"""C18 vectorize and external_operation behave as per-row application."""
import re

import numpy as np

import elfi.model.tools as tools
import elfi.utils as eu

from symx import core
from symx.core import And, Or, Not, Implies, close
from symx.explore import H
from symx.npfacade import patched, NPFacade, _Sub
from harness.C15 import Stream, SEED

PROPERTY = 'C18'
EXPLANATION = ('elfi.model.tools.run_vectorized / vectorize / unpack_meta / prepare_seed / run_external / external_operation run on '
               'solver-chosen input layouts (per position: scalar, 0-d array, 1-D batch, 2-D batch, declared constant; lengths equal '
               'or not; batch_size given or not; dtype None or False) with symbolic values; the user operation is an uninterpreted '
               'function that records what it receives; subprocess.run and numpy.fromstring are recording stubs; the generator word '
               'and get_sub_seed\'s draw stream are symbolic (C15 stream stub).')
ASSUMPTIONS = [
    'the wrapped operation is a deterministic function of its arguments (uninterpreted)',
    'subprocess.run executes the command string it is given and returns its stdout (stub returns a fixed text); '
    'numpy.fromstring parses text (stub records sep/dtype)',
    'main seed claim: the external operation node is declared uses_meta=True so that rows know their index '
    '(complement = known finding C18/row-seed-needs-meta)',
]
OUTSIDE = ['shell execution and text parsing (C code / external process)', 'arity > 3, batch length > 3']

KINDS = ('scalar', 'zero_d', 'batch1d', 'batch2d', 'const_array')


def mk_input(ctx, pos, kind, L):
    """-> (value passed to the vectorised operation, [row_0 .. row_{L-1}] expected per-row values or None if constant)"""
    if kind == 'scalar':
        v = ctx.real('in%d' % pos)
        return v, None
    if kind == 'zero_d':
        v = ctx.real('in%d' % pos)
        a = np.empty((), dtype=object if ctx.symbolic else float)
        a[()] = v
        return a, None
    if kind == 'batch1d':
        vals = [ctx.real('in%d_%d' % (pos, i)) for i in range(L)]
        return ctx.array(vals), [[v] for v in vals]
    if kind == 'batch2d':
        vals = [[ctx.real('in%d_%d_%d' % (pos, i, c)) for c in range(2)] for i in range(L)]
        return ctx.array(vals), vals
    vals = [ctx.real('in%d_c%d' % (pos, c)) for c in range(2)]      # an array that is declared constant
    return ctx.array(vals), None


def flat(x):
    if isinstance(x, np.ndarray):
        return list(x.reshape(-1))
    return [x]


def h_vectorize(ctx, arity):
    kinds = [KINDS[ctx.choice('kind%d' % p, len(KINDS))] for p in range(arity)]
    L = 1 + ctx.choice('len_minus_1', 3)
    bs_mode = ctx.choice('batch_size_mode', 3)      # 0 not given, 1 given = L, 2 given != L
    dtype = (None, False)[ctx.choice('dtype_sel', 2)]
    mismatch = ctx.flag('one_input_has_other_length')
    inputs, rows = [], []
    for p, k in enumerate(kinds):
        Lp = L + 1 if (mismatch and p == arity - 1 and k in ('batch1d', 'batch2d')) else L
        v, r = mk_input(ctx, p, k, Lp)
        inputs.append(v)
        rows.append(r)
    constants = [p for p, k in enumerate(kinds) if k == 'const_array']
    log = []

    def op(*args, **kw):
        log.append((args, dict(kw)))
        vals = []
        for a in args:
            vals.extend(flat(a))
        return ctx.apply_uf('OP%d' % len(vals), vals)
    extra = ctx.real('kwval')
    vop = tools.vectorize(op, constants=constants or None, dtype=dtype)
    kw = {'scale': extra}
    batch_lens = [len(r) for r in rows if r is not None]
    given = None
    if bs_mode == 1:
        given = L
    elif bs_mode == 2:
        given = L + 2
    if given is not None:
        kw['batch_size'] = given
    raised = None
    try:
        out = vop(*inputs, **kw)
    except ValueError as e:
        raised = e
    lens = set(batch_lens) | ({given} if given is not None else set())
    ctx.note('kinds=%s L=%d bs_mode=%d dtype=%s mismatch=%s' % (kinds, L, bs_mode, dtype, mismatch))
    if len(lens) > 1:
        ctx.claim('length_mismatch_is_refused', raised is not None)
        return
    ctx.claim('no_error_for_consistent_lengths', raised is None)
    if raised is not None:
        return
    n = lens.pop() if lens else 1
    ctx.claim('length_from_inputs_or_batch_size_or_1', len(out) == n and len(log) == n)
    if dtype is False:
        ctx.claim('dtype_False_gives_1d_object_array', isinstance(out, np.ndarray) and out.dtype == object and out.shape == (n,))
    for i in range(n):
        args, kws = log[i]
        exp = []
        ok = len(args) == arity
        for p in range(arity):
            if rows[p] is None:
                ok = ok and (args[p] is inputs[p])          # constants and scalars are passed through unchanged
                exp.extend(flat(inputs[p]))
            else:
                got = flat(args[p])
                ok = ok and len(got) == len(rows[p][i]) and bool(And(*[close(g, e) for g, e in zip(got, rows[p][i])]))
                exp.extend(rows[p][i])
        ctx.claim('call_%d_gets_row_%d_of_every_batch_input_and_constants_as_given' % (i, i), ok)
        ctx.claim('call_%d_keywords_unchanged' % i, sorted(kws) == ['scale'] and kws['scale'] is extra)
        ctx.claim('entry_%d_is_operation_of_row_%d' % (i, i), close(out[i], ctx.apply_uf('OP%d' % len(exp), exp)))


OUTPUT_VALUES = [0, 1, 0.5, -2.25, True, 'ab', 'abcde', (1, 2), None]


def h_vectorize_output_types(ctx, L):
    """The operation returns ordinary Python values whose type differs from row to row (solver-chosen per row): entry i of
    the result must still be the operation's value for row i (automatic conversion may widen, never narrow)."""
    picks = [ctx.choice('row%d_output' % i, len(OUTPUT_VALUES)) for i in range(L)]
    dtype = (None, False)[ctx.choice('dtype_sel', 2)]
    vals = [OUTPUT_VALUES[k] for k in picks]
    calls = []

    def op(x):
        calls.append(x)
        return vals[len(calls) - 1]
    vop = tools.vectorize(op, dtype=dtype)
    try:
        out = vop(np.arange(L, dtype=float))
    except ValueError as e:
        # numpy refuses some inhomogeneous combinations (e.g. a tuple next to a scalar) with an explicit error: loud, allowed
        ctx.claim('refusal_only_for_inhomogeneous_shapes', 'inhomogeneous' in str(e) or 'sequence' in str(e))
        return
    ctx.note('outputs=%r dtype=%r -> %r' % (vals, dtype, out))
    ctx.claim('one_entry_per_row', len(out) == L and len(calls) == L)
    for i in range(L):
        got, want = out[i], vals[i]
        if isinstance(want, tuple):
            ok = tuple(np.asarray(got).tolist()) == want or got == want
        elif want is None:
            ok = got is None
        elif isinstance(want, str):
            ok = str(got) == want
        elif isinstance(got, (str, np.str_)):
            # numbers next to strings are rendered as text by numpy's automatic conversion: the text must denote the value
            ok = str(got) == str(want) or (not isinstance(want, bool) and float(got) == float(want))
        else:
            ok = bool(got == want)
        ctx.claim('entry_%d_is_the_operation_value_of_row_%d' % (i, i), bool(ok))
    if dtype is False:
        ctx.claim('dtype_False_keeps_the_objects', isinstance(out, np.ndarray) and out.dtype == object and all(
            type(out[i]) is type(vals[i]) for i in range(L)))


def h_vectorize_history(ctx, arity):
    """The same vectorised operation is called twice with different input layouts: the second call must behave
    as if it were the first (no state carried over), and the caller's `constants` mask must not be modified."""
    mask_form = ctx.choice('mask_form', 3)        # 0 None, 1 list, 2 tuple
    declared = [p for p in range(arity) if ctx.flag('declared_const_%d' % p)]
    mask = None if mask_form == 0 else (list(declared) if mask_form == 1 else tuple(declared))
    if mask_form == 0 and declared:
        raise core.Infeasible()
    log = []

    def op(*args, **kw):
        log.append(args)
        vals = []
        for a in args:
            vals.extend(flat(a))
        return ctx.apply_uf('OP%d' % len(vals), vals)
    vop = tools.vectorize(op, constants=mask)
    L = 2
    results = []
    for call in range(2):
        kinds = []
        for p in range(arity):
            if p in declared:
                kinds.append('const_array')
            else:
                kinds.append(('scalar', 'batch1d')[ctx.choice('call%d_kind%d' % (call, p), 2)])
        inputs, rows = [], []
        for p, k in enumerate(kinds):
            v, r = mk_input(ctx, 10 * call + p, k, L)
            inputs.append(v)
            rows.append(r)
        del log[:]
        out = vop(*inputs)
        n = L if any(r is not None for r in rows) else 1
        ctx.claim('call%d_length' % call, len(out) == n and len(log) == n)
        for i in range(min(n, len(log))):
            exp = []
            for p in range(arity):
                exp.extend(flat(inputs[p]) if rows[p] is None else rows[p][i])
            ctx.claim('call%d_entry_%d_is_operation_of_row_%d' % (call, i, i),
                      np.ndim(out[i]) == 0 and close(out[i], ctx.apply_uf('OP%d' % len(exp), exp)))
    if mask is not None:
        ctx.claim('callers_constants_mask_not_modified', list(mask) == declared)


# ---------------------------------------------------------------- external operation

class FakeRS:
    def __init__(self, word):
        self.word = word

    def get_state(self):
        return ('MT19937', [self.word], 624, 0, 0.0)


class FakeSubprocess:
    PIPE = -1

    def __init__(self):
        self.calls = []

    def run(self, command, **kw):
        self.calls.append((command, kw))

        class CP:
            stdout = b'1 2 3'
        return CP()


def ext_env(ctx, sp, fromstring_log):
    def fromstring(text, dtype=float, count=-1, sep=''):
        fromstring_log.append((text, dtype, sep))
        return np.zeros(1)
    utils_np = NPFacade(random=_Sub(np.random, {'RandomState': Stream}))
    return patched([(tools, {'subprocess': sp, 'np': _Sub(np, {'fromstring': fromstring})}),
                    (eu, {'np': utils_np})])


def tokens_to_terms(s):
    return [core.TOKENS[int(m)] for m in re.findall(r'<<sym(\d+)>>', s)]


def h_external(ctx, L, with_meta, stream_len=5):
    """Vectorised external command with {0}, {1}, a keyword, {batch_index} from meta and {seed}."""
    high = 2 ** 31
    stream = [ctx.int('s%d' % k, 0, high - 1) for k in range(stream_len)]
    Stream.values = stream
    Stream.created = 0
    sp = FakeSubprocess()
    fs_log = []
    a = [ctx.real('a%d' % i) for i in range(L)]
    c = ctx.real('c')
    k = ctx.real('k')
    sep = ','
    with ext_env(ctx, sp, fs_log):
        # {master_seed} is given both by the user (keyword input) and by meta: the explicit input wins
        cmd = 'sim --a {0} --c {1} --k {kw} --m {master_seed} --b {batch_index} --seed {seed}' if with_meta else \
              'sim --a {0} --c {1} --k {kw} --m {master_seed} --seed {seed}'
        # the requested output type in every documented form: dtype string, numpy.dtype instance, None (default float)
        forms = ['f4', np.dtype('int32'), np.dtype('float32'), 'int64', None]
        requested = forms[ctx.choice('process_result_form', len(forms))]
        op = tools.external_operation(cmd, process_result=requested, sep=sep)
        vop = tools.vectorize(op, constants=[1])
        ms = ctx.real('user_master_seed')
        kw = dict(kw=k, master_seed=ms, random_state=FakeRS(SEED))
        if with_meta:
            kw['meta'] = {'batch_index': 7, 'submission_index': 7, 'master_seed': 1, 'model_name': 'm'}
        try:
            out = vop(ctx.array(a), c, **kw)
        except core.Cut:
            raise
    ctx.claim('one_command_per_row', len(sp.calls) == L)
    seeds = []
    for i, (command, skw) in enumerate(sp.calls):
        if ctx.symbolic:
            terms = tokens_to_terms(command)
            n_exp = 5
            ctx.claim('command_%d_has_all_substitutions' % i, len(terms) == n_exp)
            if len(terms) != n_exp:
                continue
            ctx.claim('command_%d_positional_and_keyword_inputs' % i,
                      And(close(terms[0], a[i]), close(terms[1], c), close(terms[2], k), close(terms[3], ms)))
            ctx.claim('command_%d_text' % i, re.sub(r'<<sym\d+>>', '@', command) ==
                      ('sim --a @ --c @ --k @ --m @ --b 7 --seed @' if with_meta else 'sim --a @ --c @ --k @ --m @ --seed @'))
            seeds.append(terms[4])
        else:
            m = re.match(r'sim --a (\S+) --c (\S+) --k (\S+) --m (\S+) (?:--b 7 )?--seed (\d+)$', command)
            ctx.claim('command_%d_text' % i, m is not None)
            if m:
                ctx.claim('command_%d_positional_and_keyword_inputs' % i,
                          close(float(m.group(1)), a[i], 1e-6) and close(float(m.group(2)), c, 1e-6) and
                          close(float(m.group(3)), k, 1e-6) and close(float(m.group(4)), ms, 1e-6))
                seeds.append(int(m.group(5)))
        ctx.claim('command_%d_subprocess_options' % i, skw.get('shell') is True and skw.get('check') is True and
                  skw.get('stdout') == FakeSubprocess.PIPE)
    ctx.claim('stdout_parsed_with_requested_sep_and_dtype',
              len(fs_log) == L and all(t == b'1 2 3' and np.dtype(d) == np.dtype(requested if requested is not None else float)
                                       and s == sep for t, d, s in fs_log))
    # seed: deterministic function of (generator word, row index): the (i+1)-th distinct value of the stream of word
    from harness.C15 import spec_value
    for i, sd in enumerate(seeds):
        ctx.claim('seed_%d_is_subseed_of_generator_word_and_row' % i, spec_value(stream, i, sd))
    for i in range(len(seeds)):
        for j in range(i + 1, len(seeds)):
            ctx.claim('rows_%d_%d_get_different_seeds' % (i, j), Not(seeds[i] == seeds[j]))


def h_prepare_seed_history(ctx, stream_len=4):
    """The seed for (generator, row) must not depend on which (generator, row) pairs were served before: calls for
    another generator's rows 0..j-1 (solver-chosen j) precede the call for row k of the generator under test."""
    from harness.C15 import spec_value
    high = 2 ** 31
    stream = [ctx.int('s%d' % i, 0, high - 1) for i in range(stream_len)]
    Stream.values = stream
    Stream.created = 0
    n_prev = ctx.choice('rows_served_before_for_another_generator', 3)
    k = ctx.choice('row_index', 3)
    sp = FakeSubprocess()
    with ext_env(ctx, sp, []):
        for j in range(n_prev):
            tools.prepare_seed(random_state=FakeRS(SEED + 17), index_in_batch=j)
        _, kw = tools.prepare_seed(random_state=FakeRS(SEED), index_in_batch=k)
        _, kw2 = tools.prepare_seed(random_state=FakeRS(SEED), index_in_batch=k)
    ctx.claim('seed_is_subseed_of_generator_word_and_row_whatever_was_served_before', spec_value(stream, k, kw['seed']))
    ctx.claim('same_generator_and_row_give_the_same_seed_again', kw2['seed'] == kw['seed'])


HARNESSES = [
    H('vectorize_arity1', h_vectorize, dict(arity=1), bounds='1 input: 5 kinds x length 1..3 x batch_size modes x dtype {None,False}'),
    H('vectorize_arity2', h_vectorize, dict(arity=2), bounds='2 inputs: 25 kind pairs x length 1..3 x batch_size modes x dtype'),
    H('vectorize_arity3', h_vectorize, dict(arity=3), bounds='3 inputs', tiers=('thorough',)),
    H('vectorize_output_types_L2', h_vectorize_output_types, dict(L=2), witness=False,
      bounds='2 rows; per row the operation returns one of %d ordinary Python values (int, float, bool, short/long str, tuple, None), '
             'solver-chosen; dtype in {None, False}' % len(OUTPUT_VALUES)),
    H('vectorize_output_types_L3', h_vectorize_output_types, dict(L=3), witness=False, tiers=('thorough',),
      bounds='3 rows, per-row output value solver-chosen'),
    H('vectorize_history_arity2', h_vectorize_history, dict(arity=2),
      bounds='two consecutive calls of one vectorised operation, 2 inputs each scalar or 1-D batch or declared constant; mask None / list / tuple'),
    H('prepare_seed_history', h_prepare_seed_history, dict(), bounds='0..2 rows of another generator served before row 0..2 of the '
      'generator under test; symbolic draw stream of 4 values'),
    H('external_meta_L2', h_external, dict(L=2, with_meta=True), bounds='vectorised external command, 2 rows, node uses meta'),
    H('external_meta_L3', h_external, dict(L=3, with_meta=True, stream_len=6), bounds='3 rows, node uses meta', tiers=('thorough',)),
    H('external_nometa_L2', h_external, dict(L=2, with_meta=False), bounds='vectorised external command, 2 rows, node without meta',
      finding='C18/row-seed-needs-meta', finding_claims=('get_different_seeds', 'seed_1_is_subseed')),
]

MANIFEST = {
    'level_text': 'Bounded symbolic execution of the real vectorize / external_operation code: for every input layout in the bound '
                  'and every value, entry i of the result is the (uninterpreted) operation applied to row i of each batch input '
                  'with constants and keywords passed through by identity; lengths follow inputs / batch_size / 1 and mismatches '
                  'are refused; dtype=False keeps raw results; each external command line carries exactly the positional, keyword '
                  'and meta inputs and a seed that equals get_sub_seed(generator word, row) and differs between rows.',
    'level_note': 'arity <= 2 (3 thorough), batch length <= 3; one harness with ordinary Python outputs of per-row solver-chosen type (int/float/bool/str/tuple/None); subprocess and fromstring are recording stubs; the seed claim '
                  'assumes the node uses meta (otherwise known finding C18/row-seed-needs-meta); symbolic values are traced through '
                  'string formatting by tokens; z3 trusted.',
}
