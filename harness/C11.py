"""C11 Bayesian optimisation simulates only inside bounds and trains on what it ran."""
import math
from fractions import Fraction

import numpy as np
import scipy.stats as _ss
import scipy.optimize as _so

import elfi
import elfi.methods.bo.utils as bou
import elfi.methods.bo.acquisition as acqm
import elfi.methods.mcmc as mcmc
import elfi.methods.inference.bolfi as bolfi
import elfi.clients.native as native

from symx import core
from symx.core import And, Or, Not, Implies, Sum, If, close, SymX, INF
from symx.explore import H
from symx.npfacade import patched, std_bindings, NPFacade, _Sub, sym_float, sym_int, has_sym, objarray
from symx.stubs import SSFacade, SymRandomState
from harness.abcworld import World
from harness.sched import SchedClient
from harness.C04 import use_client

PROPERTY = 'C11'
EXPLANATION = ('bo.utils.minimize, AcquisitionBase.acquire/_add_noise, LCBSC.evaluate/evaluate_gradient/_beta, '
               'UniformAcquisition.acquire, RandMaxVar.acquire (with the real metropolis) and BayesianOptimization '
               '(__init__ evidence forms, prepare_new_batch, _get_acquisition_index, _allow_submit, update, _should_optimize) run '
               'on symbolic bounds, optimiser end points, draws and simulator outputs; scipy\'s L-BFGS-B is replaced by an optimiser '
               'that may end ANYWHERE (also outside the bounds), the surrogate by uninterpreted MU/V/DMU/DV resp. a recording model, '
               'the worker pool by the symbolic-readiness client.')
ASSUMPTIONS = [
    'scipy.optimize.minimize may return any point and any value (strictly more behaviours than L-BFGS-B)',
    'truncnorm.rvs(a, b, loc, scale) returns a value in [loc + a*scale, loc + b*scale]; uniform(loc, scale).rvs in [loc, loc+scale]',
    'surrogate predictions uninterpreted with V > 0; exact reals',
    'RandMaxVar: known finding C11/randmaxvar-leaves-bounds (probed separately)',
]
OUTSIDE = ['whole Bayesian-optimisation runs with more than 2 parameters', 'the model part of the MaxVar gradient (derivative of the skew-normal cdf / Owen\'s T) and the ExpIntVar gradient: for '
           'MaxVar only the product-rule structure in the prior is claimed', 'whether L-BFGS-B respects its bounds',
           'GP hyper-parameter optimisation', 'dimension > 2']


import scipy.stats as _ss_real


class GMod:
    """Surrogate with uninterpreted predictions."""

    def __init__(self, ctx, bounds, names):
        self.ctx, self.bounds, self.parameter_names, self.input_dim = ctx, bounds, names, len(bounds)
        self.Y = np.array([[1.0], [2.0], [3.0]])

    def _rows(self, x):
        return [list(r) for r in np.asarray(x, dtype=object if self.ctx.symbolic else float).reshape(-1, self.input_dim)]

    def predict(self, x, noiseless=False):
        ctx = self.ctx
        rows = self._rows(x)
        mu = [ctx.apply_uf('MU%d' % self.input_dim, r) for r in rows]
        v = [ctx.apply_uf('V%d' % self.input_dim, r) for r in rows]
        if ctx.symbolic:
            for t in v:
                ctx._fact(t.t > 0)
        else:
            v = [abs(t) + 0.1 for t in v]
        return ctx.array([[m] for m in mu]), ctx.array([[t] for t in v])

    def predictive_gradients(self, x):
        ctx = self.ctx
        rows = self._rows(x)
        d = self.input_dim
        return (ctx.array([[ctx.apply_uf('DMU%d_%d' % (d, i), r) for i in range(d)] for r in rows]),
                ctx.array([[ctx.apply_uf('DV%d_%d' % (d, i), r) for i in range(d)] for r in rows]))


class AnyOptimizer:
    """scipy.optimize.minimize stand-in: ends at an arbitrary point with an arbitrary value."""

    def __init__(self, ctx):
        self.ctx = ctx
        self.calls = []

    def minimize(self, fun, x0, method=None, jac=None, bounds=None, constraints=None, options=None):
        k = len(self.calls)
        d = len(np.reshape(x0, -1))
        self.calls.append((x0, method, bounds))
        x = self.ctx.array([self.ctx.real('opt%d_x%d' % (k, i)) for i in range(d)])
        return {'x': x, 'fun': self.ctx.real('opt%d_f' % k)}


class _Trunc:
    @staticmethod
    def rvs(a, b, loc=0, scale=1, size=1, random_state=None):
        ctx = core.cur()
        a, b, loc = [np.reshape(np.asarray(v, dtype=object if ctx.symbolic else float), -1) for v in (a, b, loc)]
        out = []
        for i in range(size):
            k = _Trunc.counter
            _Trunc.counter += 1
            u = ctx.real('tn%d' % k, 0, 1)
            lo, hi = loc[i] + a[i] * scale, loc[i] + b[i] * scale
            out.append(lo + (hi - lo) * u)
        return ctx.array(out)


class _UniformArr:
    def __init__(self, loc, scale):
        self.loc, self.scale = loc, scale

    def rvs(self, size=None, random_state=None):
        ctx = core.cur()
        n, d = size
        out = [[self.loc[c] + self.scale[c] * ctx.real('un%d_%d' % (i, c), 0, 1) for c in range(d)] for i in range(n)]
        return ctx.array(out)


def env(ctx, opt):
    _Trunc.counter = 0
    so = _Sub(_so, {'minimize': opt.minimize})
    sc = type('sc', (), {'optimize': so})()
    ssf = SSFacade(extra={'truncnorm': _Trunc, 'uniform': _UniformArr, 'skewnorm': _Skew})
    if not ctx.symbolic:
        return patched([(bou, {'scipy': sc}), (acqm, {'ss': ssf})])
    fac = NPFacade(random=_Sub(np.random, {'RandomState': lambda seed=None: SymRandomState('acq%s' % seed)}))
    return patched([(bou, {'np': fac, 'scipy': sc}), (acqm, {'np': fac, 'ss': ssf, 'int': sym_int})])


def mk_bounds(ctx, d):
    b = [(ctx.real('lo%d' % i), ctx.real('hi%d' % i)) for i in range(d)]
    for lo, hi in b:
        ctx.assume(lo < hi)
    return b


def inside(pt, bounds):
    return And(*[And(pt[i] >= bounds[i][0], pt[i] <= bounds[i][1]) for i in range(len(bounds))])


def clipv(v, lo, hi):
    return If(v < lo, lo, If(v > hi, hi, v))


def h_minimize(ctx, d, n_start, with_prior):
    bounds = mk_bounds(ctx, d)
    opt = AnyOptimizer(ctx)
    rs = SymRandomState('start')

    class P:
        @staticmethod
        def rvs(n, random_state=None):
            return ctx.array([[ctx.real('pr%d_%d' % (i, c)) for c in range(d)] for i in range(n)]) if d > 1 else \
                ctx.array([ctx.real('pr%d_0' % i) for i in range(n)])
    with env(ctx, opt):
        loc, val = bou.minimize(lambda x: 0, bounds, grad=None, prior=P if with_prior else None, n_start_points=n_start,
                                random_state=rs)
    ctx.claim('one_local_optimisation_per_start_point', len(opt.calls) == n_start)
    ctx.claim('result_inside_bounds', inside(list(loc), bounds))
    f = [ctx.real('opt%d_f' % k) for k in range(n_start)]
    xs = [[ctx.real('opt%d_x%d' % (k, i)) for i in range(d)] for k in range(n_start)]
    ctx.claim('result_is_the_clipped_end_point_of_a_best_run',
              Or(*[And(And(*[f[k] <= f[j] for j in range(n_start)]), close(val, f[k]),
                       *[close(loc[i], clipv(xs[k][i], *bounds[i])) for i in range(d)]) for k in range(n_start)]))
    for k, (x0, method, b) in enumerate(opt.calls):
        ctx.claim('start_point_%d_inside_bounds' % k, inside(list(x0), bounds))
        ctx.claim('bounds_passed_to_optimiser_%d' % k, b is bounds and method == 'L-BFGS-B')


NOISE_FORMS = {'none': None, 'zero': 0, 'scalar': 0.25, 'per_parameter': 'dict'}


def h_acquire_lcbsc(ctx, d, n, noise):
    bounds = mk_bounds(ctx, d)
    names = ['p%d' % i for i in range(d)]
    opt = AnyOptimizer(ctx)
    nv = NOISE_FORMS[noise]
    if nv == 'dict':
        # which parameters are noisy is solver-chosen (every non-empty, non-full pattern and the full one), with
        # different variances per parameter; third-round seed C11_add_noise_bounds_by_noisy_rank needs a
        # zero-variance parameter BEFORE a noisy one
        pat = 1 + ctx.choice('noisy_pattern', 2 ** d - 1)
        nv = {names[i]: ((0.5, 0.125, 2.0)[i % 3] if (pat >> i) & 1 else 0) for i in range(d)}
    with env(ctx, opt):
        model = GMod(ctx, bounds, names)
        acq = acqm.LCBSC(model, prior=None, n_inits=1, noise_var=nv, seed=3)
        pts = acq.acquire(n, t=0)
        # the acquisition function and its gradient (evaluated once at an arbitrary point)
        q = [ctx.real('q%d' % i) for i in range(d)]
        val = acq.evaluate(ctx.array([q]), t=2)
        grad = acq.evaluate_gradient(ctx.array([q]), t=2)
    ctx.claim('exactly_n_points', np.shape(pts) == (n, d))
    for j in range(n):
        ctx.claim('point_%d_inside_bounds' % j, inside(list(pts[j]), bounds))
    if noise in ('none', 'zero'):
        xh = [clipv(ctx.real('opt0_x%d' % i), *bounds[i]) for i in range(d)]
        ctx.claim('without_noise_all_points_are_the_optimum', And(*[close(pts[j][i], xh[i]) for j in range(n) for i in range(d)]))
    # LCB = MU - sqrt(beta V), gradient = DMU - 0.5 DV sqrt(beta / V)
    beta = 2 * math.log((2 + 1) ** (2 * d + 2) * math.pi ** 2 / (3 * (1 / 10)))
    mu, v = ctx.apply_uf('MU%d' % d, q), ctx.apply_uf('V%d' % d, q)
    if not ctx.symbolic:
        v = abs(v) + 0.1
    ctx.assume_nonzero_divisors = True
    got = val[0, 0]
    ctx.claim('lcb_value', And(mu - got >= 0, close((mu - got) * (mu - got), beta * v, 1e-6)))
    for i in range(d):
        dmu, dv = ctx.apply_uf('DMU%d_%d' % (d, i), q), ctx.apply_uf('DV%d_%d' % (d, i), q)
        diff = dmu - grad[0, i]           # = 0.5 DV sqrt(beta / V): same sign as DV, square = DV^2 beta / (4 V)
        ctx.claim('lcb_gradient_%d_is_derivative' % i,
                  And(diff * dv >= 0, close(diff * diff * 4 * v, dv * dv * beta, 1e-6)))


def h_uniform(ctx, d, n):
    bounds = mk_bounds(ctx, d)
    opt = AnyOptimizer(ctx)
    with env(ctx, opt):
        model = GMod(ctx, [tuple(b) for b in bounds], ['p%d' % i for i in range(d)])
        model.bounds = [(b[0], b[1]) for b in bounds]
        acq = acqm.UniformAcquisition(model, seed=1)
        stack = np.stack
        pts = acq.acquire(n)
    ctx.claim('exactly_n_points', np.shape(pts) == (n, d))
    for j in range(n):
        ctx.claim('point_%d_inside_bounds' % j, inside(list(pts[j]), bounds))


def h_randmaxvar(ctx, n_samples):
    """RandMaxVar.acquire with the real metropolis sampler; the density is an uninterpreted non-negative function."""
    bounds = [(ctx.real('lo0'), ctx.real('hi0'))]
    ctx.assume(bounds[0][0] < bounds[0][1])
    opt = AnyOptimizer(ctx)

    class P:
        @staticmethod
        def rvs(size=None, random_state=None):
            return ctx.array([ctx.real('prior_start')])
    b = [(mcmc, {'np': NPFacade(random=_Sub(np.random, {'RandomState': lambda seed=None: SymRandomState('mh%s' % seed)}))})] \
        if ctx.symbolic else [(mcmc, {'np': _Sub(np, {'random': _Sub(np.random, {'RandomState': lambda seed=None: SymRandomState('mh%s' % seed)})})})]
    with env(ctx, opt), patched(b):
        model = GMod(ctx, bounds, ['p0'])
        acq = acqm.RandMaxVar(model, P, sampler='metropolis', n_samples=n_samples, warmup=1, init_from_prior=True,
                              sigma_proposals={'p0': 0.5}, seed=2)

        def evaluate(theta, t=None):
            v = ctx.apply_uf('DENS', list(np.reshape(theta, -1)))
            if ctx.symbolic:
                ctx._fact(v.t > 0)
                return v
            return abs(v) + 0.01
        acq.evaluate = evaluate
        pts = acq.acquire(1)
    ctx.claim('exactly_one_point', np.shape(pts)[0] == 1)
    ctx.claim('acquired_point_inside_bounds', inside(list(np.reshape(pts, -1)), bounds))


# ---------------------------------------------------------------- evidence bookkeeping

# ---------------------------------------------------------------- MaxVar gradient: product-rule structure

class _Skew:
    """scipy.stats.skewnorm.cdf as an uninterpreted function of (standardised argument, shape)."""

    @staticmethod
    def cdf(x, a, loc=0, scale=1):
        ctx = core.cur()
        if not ctx.symbolic:
            return _ss_real.skewnorm.cdf(x, a, loc=loc, scale=scale)
        z = (x - loc) / scale
        z, a = np.broadcast_arrays(np.asarray(z, dtype=object), np.asarray(a, dtype=object))
        out = np.empty(z.shape, dtype=object)
        fo = out.reshape(-1)
        for i, (zi, ai) in enumerate(zip(z.reshape(-1), a.reshape(-1))):
            fo[i] = ctx.apply_uf('SKEWCDF', [zi, ai])
        return out


class PriorUF:
    """Prior with uninterpreted density and log-density gradient (flat=True: density 1, gradient 0)."""

    def __init__(self, ctx, d, flat=False):
        self.ctx, self.d, self.flat = ctx, d, flat

    def _rows(self, x):
        return [list(r) for r in np.asarray(x, dtype=object if self.ctx.symbolic else float).reshape(-1, self.d)]

    def pdf(self, x):
        ctx = self.ctx
        if self.flat:
            return ctx.array([1 for _ in self._rows(x)])
        out = []
        for r in self._rows(x):
            v = ctx.apply_uf('PRIORPDF%d' % self.d, r)
            if ctx.symbolic:
                ctx._fact(v.t > 0)
            else:
                v = abs(v) + 0.05
            out.append(v)
        return ctx.array(out)

    def gradient_logpdf(self, x):
        ctx = self.ctx
        if self.flat:
            return ctx.array([[0 for _ in range(self.d)] for _ in self._rows(x)])
        return ctx.array([[ctx.apply_uf('DLOGPRIOR%d_%d' % (self.d, i), r) for i in range(self.d)] for r in self._rows(x)])


def h_maxvar_gradient(ctx, d, cls='MaxVar'):
    """f = p(theta)^2 * Var_a(theta): the gradient must be 2 p^2 (grad log p) Var_a + p^2 grad Var_a (product rule with
    grad p = p grad log p), where Var_a and grad Var_a are what the same code returns under a flat prior."""
    bounds = mk_bounds(ctx, d)
    names = ['p%d' % i for i in range(d)]
    opt = AnyOptimizer(ctx)
    ctx.assume_nonzero_divisors = True
    q = [ctx.real('q%d' % i) for i in range(d)]
    eps = ctx.real('eps')
    with env(ctx, opt):
        model = GMod(ctx, bounds, names)
        model.noise = ctx.real('noise', 0, None, lo_open=True)
        K = getattr(acqm, cls)
        acq = K(model, prior=PriorUF(ctx, d), seed=3)
        flat = K(model, prior=PriorUF(ctx, d, flat=True), seed=3)
        acq.eps = flat.eps = eps
        x = ctx.array([q])
        val = acq.evaluate(x)
        grad = acq.evaluate_gradient(x)
        v0 = flat.evaluate(x)
        g0 = flat.evaluate_gradient(x)
    P = ctx.apply_uf('PRIORPDF%d' % d, q)
    if not ctx.symbolic:
        P = abs(P) + 0.05
    ctx.claim('shapes', np.shape(val) == (1, 1) and np.shape(grad) == (1, d))
    ctx.claim_poly('value_is_squared_prior_density_times_flat_prior_value', val[0, 0], P * P * v0[0, 0])
    for i in range(d):
        L = ctx.apply_uf('DLOGPRIOR%d_%d' % (d, i), q)
        ctx.claim_poly('gradient_%d_obeys_the_product_rule_in_the_prior' % i, grad[0, i], 2 * P * P * L * v0[0, 0] + P * P * g0[0, i])


class _PriorWithRvs(PriorUF):
    """PriorUF plus arbitrary start points for the optimiser."""

    def rvs(self, size=None, random_state=None):
        ctx = self.ctx
        n = int(size)
        if self.d == 1:
            return ctx.array([ctx.real('pstart%d_0' % i) for i in range(n)])
        return ctx.array([[ctx.real('pstart%d_%d' % (i, c)) for c in range(self.d)] for i in range(n)])


def h_maxvar_acquire(ctx, d, n, cls='MaxVar'):
    """MaxVar.acquire / ExpIntVar.acquire (grid integration) over an optimiser that may end anywhere: exactly n points, all
    inside the bounds and all equal to the clipped end point; the threshold is the requested percentile of the evidence."""
    opt = AnyOptimizer(ctx)
    names = ['p%d' % i for i in range(d)]
    if cls == 'ExpIntVar':
        # np.mgrid needs concrete grid limits: fixed bounds here (different per dimension), the optimiser's end point is symbolic
        bounds = [(Fraction(0), Fraction(1)), (Fraction(-1), Fraction(1, 2))][:d]
        fb = [(float(a), float(b)) for a, b in bounds]
    else:
        bounds = mk_bounds(ctx, d)
        fb = bounds
    with env(ctx, opt):
        model = GMod(ctx, fb, names)
        model.noise = ctx.real('noise', 0, None, lo_open=True)
        model.X = np.array([[0.25] * d, [0.5] * d, [0.75] * d])

        class _Kern:
            @staticmethod
            def K(a, b):
                a, b = np.reshape(a, (-1, d)), np.reshape(b, (-1, d))
                return ctx.array([[ctx.apply_uf('KERN%d' % d, list(x) + list(y)) for y in b] for x in a])
        model._gp = type('G', (), {'kern': _Kern})()
        K = getattr(acqm, cls)
        kw = dict(integration='grid', d_grid=0.5) if cls == 'ExpIntVar' else {}
        acq = K(model, prior=_PriorWithRvs(ctx, d), quantile_eps=0.5, n_inits=2, seed=3, **kw)
        pts = acq.acquire(n, 1)
    ctx.claim('exactly_n_points', np.shape(pts) == (n, d))
    for j in range(n):
        ctx.claim('point_%d_inside_bounds' % j, inside(list(pts[j]), bounds))
    ctx.claim('two_local_optimisations', len(opt.calls) == 2)
    for k, (x0, method, b) in enumerate(opt.calls):
        ctx.claim('start_point_%d_inside_bounds' % k, inside(list(x0), bounds))
    f = [ctx.real('opt%d_f' % k) for k in range(2)]
    xs = [[ctx.real('opt%d_x%d' % (k, i)) for i in range(d)] for k in range(2)]
    ctx.claim('every_point_is_the_clipped_end_point_of_a_best_run',
              Or(*[And(And(*[f[k] <= f[j] for j in range(2)]),
                       *[close(pts[r][i], clipv(xs[k][i], *bounds[i])) for i in range(d) for r in range(n)]) for k in range(2)]))
    ctx.claim('threshold_is_the_requested_quantile_of_the_evidence', close(acq.eps, 2, 1e-9))


class RecModel:
    """Recording surrogate: keeps the (parameters, target) pairs it is trained on."""

    def __init__(self, names, bounds):
        self.parameter_names, self.bounds, self.input_dim = names, bounds, len(names)
        self.Xl, self.Yl, self.opt_flags = [], [], []

    def update(self, x, y, optimize=False):
        for r, v in zip(np.reshape(x, (-1, self.input_dim)), np.reshape(y, -1)):
            self.Xl.append(list(r))
            self.Yl.append(v)
        self.opt_flags.append(bool(optimize))

    def predict_mean(self, x):
        return np.zeros((len(np.reshape(x, (-1, self.input_dim))), 1))

    def predictive_gradient_mean(self, x):
        return np.zeros((len(np.reshape(x, (-1, self.input_dim))), self.input_dim))

    @property
    def n_evidence(self):
        return len(self.Yl)

    @property
    def X(self):
        return np.array(self.Xl, dtype=object)

    @property
    def Y(self):
        return np.array(self.Yl, dtype=object)


class RecAcq:
    """Acquisition stand-in: hands out fresh symbolic points (inside the bounds by the claims above)."""

    def __init__(self, ctx, tag, model=None):
        self.ctx, self.tag, self.calls, self.model = ctx, tag, [], model
        self.seen_evidence = []

    def acquire(self, n, t=None):
        self.calls.append((n, t))
        self.seen_evidence.append(self.model.n_evidence)     # what the surrogate had been trained on at that moment
        d = getattr(self.model, 'input_dim', 1)
        if d == 1:
            return self.ctx.array([[self.ctx.real('acq_t%s_%d' % (t, i))] for i in range(n)])
        return self.ctx.array([[self.ctx.real('acq_t%s_%d_%d' % (t, i, c)) for c in range(d)] for i in range(n)])


def run_bo(ctx, w, client, mp, bs, n_init, precomputed, n_total, bpa, update_interval, tag):
    model = RecModel(['t'], [(0, 1)])
    acq = RecAcq(ctx, tag, model)
    with use_client(client):
        bo = bolfi.BayesianOptimization(w.model['d'], batch_size=bs, initial_evidence=precomputed if precomputed else n_init,
                                        update_interval=update_interval, target_model=model, acquisition_method=acq,
                                        batches_per_acquisition=bpa, max_parallel_batches=mp, seed=w.seed, async_acq=False)
        w.consumed = []
        w.watch(bo)
        bo.infer(n_total, bar=False)
    return bo, model, acq


def h_bo_evidence(ctx, bs, n_init, n_total, bpa, precomp, max_queries=5):
    K = (n_total + bs - 1) // bs + 2
    w = World(ctx, bs, max_batches=K, d_specials=())
    pre = None
    if precomp:
        pre = {'t': ctx.array([ctx.real('pre_t%d' % i) for i in range(precomp)]),
               'd': ctx.array([ctx.real('pre_d%d' % i) for i in range(precomp)])}
    with w.env(), patched(std_bindings([bolfi], shadow_builtins=True)):
        boA, mA, aA = run_bo(ctx, w, native.Client(), 1, bs, n_init, pre, n_total, bpa, 2, 'a')
        consumedA = list(w.consumed)
        simA = dict(w.sim_args)
        mp = 1 + ctx.choice('max_parallel_minus_1', 2)
        client = SchedClient(ctx, num_cores=mp, max_queries=max_queries)
        w.sim_args = {}
        boB, mB, aB = run_bo(ctx, w, client, mp, bs, n_init, pre, n_total, bpa, 2, 'a')
    n_pre = precomp or 0
    n_new = n_total - n_pre
    nb = (n_new + bs - 1) // bs if n_new > 0 else 0
    ctx.claim('batches_consumed_in_index_order', consumedA == list(range(len(consumedA))) and w.consumed == consumedA)
    ctx.claim('n_evidence_counts_precomputed_plus_consumed', boA.state['n_evidence'] == n_pre + bs * len(consumedA) and
              mA.n_evidence == n_pre + bs * len(consumedA) and boA.n_evidence == mA.n_evidence)
    # evidence = precomputed, then consumed batches in index order, each row (parameters it was simulated with, target value)
    exp_x, exp_y = [], []
    for i in range(n_pre):
        exp_x.append(pre['t'][i])
        exp_y.append(pre['d'][i])
    n_prior_batches = max(0, (max(n_init, 0) - n_pre + bs - 1) // bs) if not precomp else 0
    acq_pts = {}
    for b in consumedA:
        for i in range(bs):
            if b in simA and len(simA[b]) > 0:
                exp_x.append(simA[b][0][i])
            exp_y.append(w.values[('d', b)][i])
    ctx.claim('evidence_is_precomputed_then_consumed_batches_in_order',
              len(mA.Yl) == len(exp_y) and And(*[close(a, b) for a, b in zip(mA.Yl, exp_y)]) and
              len(mA.Xl) == len(exp_x) and And(*[close(a[0], b) for a, b in zip(mA.Xl, exp_x)]))
    # the simulator received exactly the acquired points, in acquisition order, after the initial (prior) batches
    flat_acq = []
    for (n, t) in aA.calls:
        flat_acq.extend([ctx.real('acq_t%s_%d' % (t, i)) for i in range(n)])
    sim_after_init = []
    for b in consumedA:
        first_index = bs * b
        if first_index >= (n_init if not precomp else 0) - (0 if not precomp else 0) and (boA._get_acquisition_index(b) >= 0):
            sim_after_init.extend(list(simA[b][0]))
    ctx.claim('simulated_parameters_are_the_acquired_points_in_order',
              len(sim_after_init) <= len(flat_acq) and And(*[close(a, b) for a, b in zip(sim_after_init, flat_acq)]))
    ctx.claim('acquisition_requests_batch_size_times_batches_per_acquisition', all(n == bs * bpa for n, t in aA.calls) and
              [t for n, t in aA.calls] == list(range(len(aA.calls))))
    # synchronous acquisition: the same evidence for every schedule
    ctx.claim('same_evidence_for_every_schedule',
              len(mB.Yl) == len(mA.Yl) and And(*[close(a, b) for a, b in zip(mA.Yl, mB.Yl)]) and
              And(*[close(a[0], b[0]) for a, b in zip(mA.Xl, mB.Xl)]) and aA.calls == aB.calls and mA.opt_flags == mB.opt_flags and
              aA.seen_evidence == aB.seen_evidence)
    ctx.claim('no_task_left', len(client.tasks) == 0 and client.errors == [])


def h_bo_two_params(ctx, n_total=3):
    """Two parameters (t, u) and a user-supplied surrogate whose parameter order is solver-chosen ((t,u) or (u,t)): the
    evidence rows must be the simulated parameters in the SURROGATE's column order, and the simulator must receive each
    acquired point's columns under the right parameter names."""
    bs = 1
    w = World(ctx, bs, max_batches=n_total + 2, d_specials=(), extra_param=True)
    names = (['t', 'u'], ['u', 't'])[ctx.choice('surrogate_parameter_order', 2)]
    with w.env(), patched(std_bindings([bolfi], shadow_builtins=True)):
        model = RecModel(list(names), [(0, 1), (0, 1)])
        acq = RecAcq(ctx, 'a', model)
        with use_client(native.Client()):
            bo = bolfi.BayesianOptimization(w.model['d'], batch_size=bs, initial_evidence=1, update_interval=1,
                                            target_model=model, acquisition_method=acq, batches_per_acquisition=1,
                                            max_parallel_batches=1, seed=w.seed, async_acq=False)
            w.consumed = []
            w.watch(bo)
            bo.infer(n_total, bar=False)
    cons = list(w.consumed)
    ctx.claim('one_batch_per_evidence_point', cons == list(range(n_total)) and model.n_evidence == n_total)
    for b in cons:
        simulated = {'t': w.sim_args[b][0][0], 'u': w.sim_args[b][1][0]}       # the simulator's positional parents are (t, u)
        ctx.claim('evidence_row_%d_is_the_simulated_point_in_the_surrogates_column_order' % b,
                  And(close(model.Xl[b][0], simulated[names[0]]), close(model.Xl[b][1], simulated[names[1]]),
                      close(model.Yl[b], w.values[('d', b)][0])))
        k = bo._get_acquisition_index(b)
        if k >= 0:
            pt = {names[c]: ctx.real('acq_t%s_%d_%d' % (k, 0, c)) for c in range(2)}
            ctx.claim('batch_%d_simulates_the_acquired_point_under_the_right_names' % b,
                      And(close(simulated['t'], pt['t']), close(simulated['u'], pt['u'])))


HARNESSES = [
    H('minimize_d1_s2', h_minimize, dict(d=1, n_start=2, with_prior=False), bounds='dim 1, 2 start points, uniform starts'),
    H('minimize_d2_s2_prior', h_minimize, dict(d=2, n_start=2, with_prior=True), bounds='dim 2, 2 start points from a prior (clipped)'),
    H('minimize_d1_s3', h_minimize, dict(d=1, n_start=3, with_prior=False), bounds='dim 1, 3 start points', tiers=('thorough',)),
    H('lcbsc_d1_n2_none', h_acquire_lcbsc, dict(d=1, n=2, noise='none'), bounds='LCBSC dim 1, 2 points, no noise'),
    H('lcbsc_d1_n2_scalar', h_acquire_lcbsc, dict(d=1, n=2, noise='scalar'), bounds='LCBSC dim 1, 2 points, scalar noise variance'),
    H('lcbsc_d2_n1_per_parameter', h_acquire_lcbsc, dict(d=2, n=1, noise='per_parameter'), bounds='LCBSC dim 2, per-parameter noise dict, every pattern of zero / positive variances'),
    H('lcbsc_d2_n2_zero', h_acquire_lcbsc, dict(d=2, n=2, noise='zero'), bounds='LCBSC dim 2, noise variance 0'),
    H('maxvar_gradient_d1', h_maxvar_gradient, dict(d=1), bounds='MaxVar dim 1, one query point, symbolic threshold/noise/prior'),
    H('maxvar_gradient_d2', h_maxvar_gradient, dict(d=2), bounds='MaxVar dim 2, one query point'),
    H('maxvar_acquire_d1_n2', h_maxvar_acquire, dict(d=1, n=2), bounds='MaxVar.acquire dim 1, 2 points, 2 optimiser starts from the prior'),
    H('maxvar_acquire_d2_n1', h_maxvar_acquire, dict(d=2, n=1), bounds='MaxVar.acquire dim 2, 1 point'),
    H('expintvar_acquire_d1_n2', h_maxvar_acquire, dict(d=1, n=2, cls='ExpIntVar'),
      bounds='ExpIntVar.acquire (grid integration) dim 1, fixed bounds (0,1), 2 points, symbolic optimiser end points'),
    H('expintvar_acquire_d2_n1', h_maxvar_acquire, dict(d=2, n=1, cls='ExpIntVar'),
      bounds='ExpIntVar.acquire (grid) dim 2, fixed bounds (0,1)x(-1,0.5), 1 point'),
    H('bo_two_params_surrogate_order', h_bo_two_params, dict(n_total=3),
      bounds='2 parameters, user-supplied surrogate with solver-chosen parameter order, 1 initial + 2 acquired points, batch_size 1'),
    H('uniform_d2_n2', h_uniform, dict(d=2, n=2), bounds='UniformAcquisition dim 2, 2 points'),
    H('randmaxvar_metropolis', h_randmaxvar, dict(n_samples=2), bounds='RandMaxVar dim 1, metropolis with 2 samples, 1 acquisition',
      finding='C11/randmaxvar-leaves-bounds', finding_claims=('acquired_point_inside_bounds',)),
    H('bo_bs1_init2_total4', h_bo_evidence, dict(bs=1, n_init=2, n_total=4, bpa=1, precomp=0),
      bounds='batch_size 1, 2 initial + 2 acquired, batches_per_acquisition 1, max_parallel in {1,2}'),
    H('bo_bs2_init2_total6_bpa2', h_bo_evidence, dict(bs=2, n_init=2, n_total=6, bpa=2, precomp=0),
      bounds='batch_size 2, 2 initial + 4 acquired, batches_per_acquisition 2'),
    H('bo_precomputed2_total4', h_bo_evidence, dict(bs=1, n_init=0, n_total=4, bpa=1, precomp=2),
      bounds='2 precomputed evidence points + 2 acquired'),
    H('bo_bs1_init0_total3', h_bo_evidence, dict(bs=1, n_init=0, n_total=3, bpa=1, precomp=0), bounds='zero initial evidence',
      tiers=('thorough',)),
]

MANIFEST = {
    'level_text': 'Bounded symbolic execution of the real optimisation / acquisition / BO bookkeeping code: whatever point the inner '
                  'optimiser ends at, the acquired points are exactly n and inside the bounds for LCBSC (all noise settings) and '
                  'UniformAcquisition; the LCB value and gradient equal MU - sqrt(beta V) and its derivative; the surrogate is trained '
                  'on precomputed evidence followed by the consumed batches in index order with the parameters that were simulated, '
                  'n_evidence counts them, the simulator receives the acquired points in order, and with synchronous acquisition the '
                  'evidence is the same term sequence for every readiness schedule.',
    'level_note': 'dim <= 2; <= 3 start points; <= 6 evidence points; L-BFGS-B over-approximated by an arbitrary end point; '
                  'MaxVar: product-rule structure of value and gradient in the prior is claimed, its model part and the ExpIntVar gradient are outside; RandMaxVar is known finding C11/randmaxvar-leaves-bounds; the GP is a '
                  'recording stand-in in the bookkeeping harnesses. z3 trusted.',
}
