"""C14 Editing, copying and saving a model preserves its structure and meaning."""
import os
import copy
import shutil
import tempfile
import collections

import numpy as np
import networkx as nx

import elfi

from symx import core
from symx.core import And, Or, Not, Implies, close
from symx.explore import H
from harness.graphs import PROGRAMS, Built, Spec

# a start graph with a multi-parent leaf (y) and a second leaf (z) that is not one of its ancestors
PROGRAMS = dict(PROGRAMS, two_leaves=[Spec('t', 'Prior'), Spec('a', 'Operation', ['t']), Spec('y', 'Operation', ['a', 't']),
                                      Spec('z', 'Operation', ['t'])])

PROPERTY = 'C14'
EXPLANATION = ('Solver-chosen edit scripts (add a node, become, remove_node, set parameter_names, set an observation, copy(), '
               'save()/load()) run on real ElfiModels through the public node API (GraphicalModel.add_node/remove_node/add_edge/'
               'update_node/copy, ElfiModel.update_node/remove_node/parameter_names/copy/save/load, NodeReference.become); after '
               'every step the structure is checked, and the model\'s generate() output is compared (EUF validity, operations '
               'uninterpreted) with the denotational meaning of a shadow description that is edited according to the property text.')
ASSUMPTIONS = [
    'become(): the replacement is a freshly created node or an existing node without children, and not a descendant of the '
    'replaced node',
    'operations are deterministic (uninterpreted functions); seeds fixed',
    'save/load harness uses concrete constants (symbolic terms cannot be pickled) and picklable operation objects',
]
OUTSIDE = ['scripts longer than 3 edits', 'start graphs beyond the listed programs', 'pickle itself']


class NamedOp:
    """Picklable recording operation: the uninterpreted function F_<opname>_<named keywords>."""

    def __init__(self, opname, named=()):
        self.opname = opname
        self.named = tuple(sorted(named))

    def __call__(self, *args, **kw):
        ctx = core.cur()
        vals = list(args) + [kw[k] for k in self.named if k in kw]
        if 'batch_size' in kw:
            vals.append(kw['batch_size'])
        if 'observed' in kw:
            vals.extend(list(kw['observed']))
        name = 'F_%s_%s' % (self.opname, '_'.join(self.named)) + ('_obs%d' % len(kw['observed']) if 'observed' in kw else '')
        return ctx.apply_uf(name, vals)


class NamedDist:
    def __init__(self, opname):
        self.op = NamedOp(opname)

    def rvs(self, *a, size=None, random_state=None):
        return self.op(*a, batch_size=size[0])


class EBuilt(Built):
    """Built with picklable operations (needed for save/load) that ignore the generator."""

    def __init__(self, ctx, specs, concrete_constants=False):
        self.concrete_constants = concrete_constants
        super().__init__(ctx, specs)

    def _build(self, specs):
        ctx = self.ctx
        m = elfi.ElfiModel()
        self.ref = {}
        for s in specs:
            self.add_spec(m, s)
        return m

    def add_spec(self, m, s):
        ctx = self.ctx
        ref = self.ref
        parents = [ref[p] if not p.startswith('#') else float(p[1:]) for p in s.pos]
        if s.kind == 'Constant':
            self.const[s.name] = (float(len(self.const)) + 0.5) if self.concrete_constants else ctx.real('const_%s' % s.name)
            ref[s.name] = elfi.Constant(self.const[s.name], model=m, name=s.name)
            return ref[s.name]
        kw = {}
        if s.observed:
            self.obs[s.name] = (10.0 + len(self.obs)) if self.concrete_constants else ctx.real('obs_%s' % s.name)
            kw['observed'] = self.obs[s.name]
        op = NamedOp(s.op_name, s.named)
        if s.kind == 'Operation':
            n = elfi.Operation(op, *parents, model=m, name=s.name)
        elif s.kind == 'Prior':
            n = elfi.Prior(NamedDist(s.op_name), *parents, model=m, name=s.name)
        elif s.kind == 'Simulator':
            n = elfi.Simulator(op, *parents, model=m, name=s.name, **kw)
        elif s.kind == 'Summary':
            n = elfi.Summary(op, *parents, model=m, name=s.name, **kw)
        elif s.kind == 'Discrepancy':
            n = elfi.Discrepancy(op, *parents, model=m, name=s.name)
        for k, p in sorted(s.named.items()):
            m.add_edge(p, s.name, param_name=k)
        ref[s.name] = n
        return n


# ------------------------------------------------------------------ shadow semantics (from the property text)

class Shadow:
    def __init__(self, specs, const, obs):
        self.specs = collections.OrderedDict((s.name, s.clone()) for s in specs)
        self.const = dict(const)
        self.obs = dict(obs)
        self.params = set(s.name for s in specs if s.kind == 'Prior')
        self.private = {}      # private constant name -> value

    def clone(self):
        c = Shadow([], {}, {})
        c.specs = collections.OrderedDict((k, v.clone()) for k, v in self.specs.items())
        c.const, c.obs, c.params, c.private = dict(self.const), dict(self.obs), set(self.params), dict(self.private)
        return c

    def children(self, name):
        return [s.name for s in self.specs.values() if name in s.pos or name in s.named.values()]

    def descendants(self, name):
        out, todo = set(), [name]
        while todo:
            for c in self.children(todo.pop()):
                if c not in out:
                    out.add(c)
                    todo.append(c)
        return out

    def remove(self, name):
        s = self.specs.pop(name)
        self.obs.pop(name, None)
        self.params.discard(name)
        self.const.pop(name, None)
        # children lose the edge
        for c in self.specs.values():
            c.pos = [p for p in c.pos if p != name]
            c.named = {k: p for k, p in c.named.items() if p != name}
        # sole private parents go with it
        for p in list(s.pos) + list(s.named.values()):
            if p.startswith('_') and p in self.specs and not self.children(p):
                self.remove(p)

    def become(self, x, y):
        """x keeps its name and children; operation, kind, parents, observation, flags of y; y disappears;
        x's old private constants disappear iff orphaned."""
        old = self.specs[x]
        new = self.specs[y]
        oldparents = list(old.pos) + list(old.named.values())
        keep_param = None
        old.kind, old.pos, old.named, old.op_name = new.kind, list(new.pos), dict(new.named), new.op_name
        old.decl_named = new.decl_named
        old.observed, old.uses_meta = new.observed, new.uses_meta
        if y in self.obs:
            self.obs[x] = self.obs.pop(y)
        else:
            self.obs.pop(x, None)
        if y in self.params:
            self.params.add(x)
        else:
            self.params.discard(x)
        self.params.discard(y)
        del self.specs[y]
        for p in oldparents:
            if p.startswith('_') and p in self.specs and not self.children(p):
                self.remove(p)


def denote_shadow(ctx, sh, outputs, bs):
    """Meaning of the shadow program (reuses Built.denote on a throw-away object)."""
    B = Built.__new__(Built)
    B.ctx = ctx
    B.specs = sh.specs
    B.const = sh.const
    B.obs = sh.obs
    return B.denote(outputs, {}, bs)


# ------------------------------------------------------------------ structural checks

def structure_claims(ctx, tag, m, sh):
    g = m.source_net
    ctx.claim(tag + '_acyclic', nx.is_directed_acyclic_graph(g))
    ctx.claim(tag + '_every_edge_has_param', all('param' in d for _, _, d in g.edges(data=True)))
    ok = True
    for n in g.nodes:
        pos = [d['param'] for _, _, d in g.in_edges(n, data=True) if isinstance(d['param'], int)]
        if len(pos) != len(set(pos)):
            ok = False
    ctx.claim(tag + '_positional_params_distinct', ok)
    ctx.claim(tag + '_node_set', sorted(g.nodes) == sorted(sh.specs))
    for n, s in sh.specs.items():
        if n not in g.nodes:
            continue
        ctx.claim(tag + '_positional_parents_of_%s' % n, m.get_parents(n) == s.pos)
        named = {d['param']: u for u, _, d in g.in_edges(n, data=True) if isinstance(d['param'], str)}
        ctx.claim(tag + '_named_parents_of_%s' % n, named == s.named)
    ctx.claim(tag + '_parameter_names_sorted_parameters', m.parameter_names == sorted(sh.params))
    ctx.claim(tag + '_observed_keys', sorted(m.observed.keys()) == sorted(sh.obs.keys()))
    ctx.claim(tag + '_observed_values', And(*[close(m.observed[k], sh.obs[k]) for k in sh.obs if k in m.observed]))


def meaning_claims(ctx, tag, m, sh, bs=2):
    outs = [n for n in sh.specs if not n.startswith('_')]
    den = denote_shadow(ctx, sh, outs, bs)
    try:
        res = m.generate(bs, outs, seed=4)
    except ValueError as e:
        ctx.claim(tag + '_rejected_only_if_meaning_rejects', den[0] == 'reject')
        return None
    if den[0] == 'reject':
        ctx.claim(tag + '_rejected_only_if_meaning_rejects', False)
        return None
    for o in outs:
        ctx.claim(tag + '_meaning_of_%s' % o, close(res[o], den[1][o]))
    return res


# ------------------------------------------------------------------ edits

def private_name(m, child, value=None):
    """Name elfi gave to the private constant parent of `child` (random suffix)."""
    return [p for p in m.source_net.predecessors(child) if p.startswith('_' + child)]


def do_edit(ctx, E, m, sh, step, counter):
    """One solver-chosen edit on model m and shadow sh.  Returns a tag."""
    names = [n for n in sh.specs if not n.startswith('_')]
    op = ctx.choice('op%d' % step, 5)
    if op == 0:      # add an Operation with one or two existing parents and a private constant
        new = 'n%d' % counter[0]
        counter[0] += 1
        p1 = names[ctx.choice('add%d_p1' % step, len(names))]
        p2 = names[ctx.choice('add%d_p2' % step, len(names))]
        parents = [p1] if p1 == p2 else [p1, p2]
        refs = [m[p] for p in parents]
        elfi.Operation(NamedOp(new), *refs, 2.5, model=m, name=new)
        pn = private_name(m, new)
        s = Spec(new, 'Operation', parents + pn)
        sh.specs[new] = s
        for p in pn:
            sh.specs[p] = Spec(p, 'Constant')
            sh.const[p] = 2.5
        return 'add(%s<-%s)' % (new, parents)
    if op == 1:      # become
        cands = [n for n in names if sh.specs[n].kind != 'Constant']
        x = cands[ctx.choice('become%d_x' % step, len(cands))]
        # the replacement is either an existing childless node (not x, not below x) or a freshly created one
        existing = [n for n in cands if n != x and not sh.children(n) and n not in sh.descendants(x)]
        if existing and ctx.flag('become%d_existing' % step):
            y = existing[ctx.choice('become%d_y' % step, len(existing))]
            m[x].become(m[y])
            sh.become(x, y)
            return 'become(%s<-existing %s)' % (x, y)
        new = 'r%d' % counter[0]
        counter[0] += 1
        forbidden = sh.descendants(x) | {x}
        pc = [n for n in names if n not in forbidden]
        parents = []
        if pc:
            parents = [pc[ctx.choice('become%d_p' % step, len(pc))]]
        kind = ('Operation', 'Prior', 'Summary')[ctx.choice('become%d_kind' % step, 3)]
        if kind == 'Summary' and not parents:
            kind = 'Operation'
        observed = kind == 'Summary' and ctx.flag('become%d_obs' % step)
        refs = [m[p] for p in parents]
        kw = {}
        if observed:
            kw['observed'] = 77.0
        if kind == 'Operation':
            y = elfi.Operation(NamedOp(new), *refs, 3.5, model=m, name=new)
        elif kind == 'Prior':
            y = elfi.Prior(NamedDist(new), *refs, 3.5, model=m, name=new)
        else:
            y = elfi.Summary(NamedOp(new), *refs, 3.5, model=m, name=new, **kw)
        pn = private_name(m, new)
        s = Spec(new, kind, parents + pn, observed=observed)
        sh.specs[new] = s
        for p in pn:
            sh.specs[p] = Spec(p, 'Constant')
            sh.const[p] = 3.5
        if observed:
            sh.obs[new] = 77.0
        if kind == 'Prior':
            sh.params.add(new)
        m[x].become(y)
        sh.become(x, new)
        return 'become(%s<-%s:%s%s)' % (x, new, kind, parents)
    if op == 2:      # remove
        x = names[ctx.choice('remove%d' % step, len(names))]
        m.remove_node(x)
        sh.remove(x)
        return 'remove(%s)' % x
    if op == 3:      # parameter_names
        cands = [n for n in names if sh.specs[n].kind != 'Constant']
        sel = [n for n in cands if ctx.flag('param%d_%s' % (step, n))]
        m.parameter_names = sel
        sh.params = set(sel)
        return 'parameter_names=%s' % sel
    # set an observation of an observable node
    cands = [n for n in names if sh.specs[n].observable]
    if not cands:
        raise core.Infeasible()
    x = cands[ctx.choice('obs%d' % step, len(cands))]
    m.observed[x] = 55.0
    sh.obs[x] = 55.0
    return 'observe(%s)' % x


def h_edit(ctx, program, steps, family=None):
    if family:
        from harness.C03 import family_program
        specs = family_program(ctx, family)      # solver-chosen program (every program of `family` nodes)
        for s_ in specs:
            s_.uses_meta = False
    else:
        specs = PROGRAMS[program]
    E = EBuilt(ctx, specs)
    m = E.model
    sh = Shadow(specs, E.const, E.obs)
    counter = [0]
    structure_claims(ctx, 'start', m, sh)
    log = []
    for k in range(steps):
        log.append(do_edit(ctx, E, m, sh, k, counter))
        if not [n for n in sh.specs if not n.startswith('_')]:
            raise core.Infeasible()
        structure_claims(ctx, 'after%d' % k, m, sh)
    ctx.note('program=%s script=%s' % (program, log))
    meaning_claims(ctx, 'final', m, sh)


def h_copy(ctx, program, steps):
    """copy() generates the same outputs; edits of the copy leave the original untouched."""
    specs = PROGRAMS[program]
    E = EBuilt(ctx, specs)
    m = E.model
    sh = Shadow(specs, E.const, E.obs)
    counter = [0]
    if ctx.flag('edit_before_copy'):
        do_edit(ctx, E, m, sh, 9, counter)
    kopy = m.copy()
    shk = sh.clone()
    structure_claims(ctx, 'copy', kopy, shk)
    r0 = meaning_claims(ctx, 'orig', m, sh)
    rk = meaning_claims(ctx, 'copy', kopy, shk)
    if r0 is not None and rk is not None:
        ctx.claim('copy_generates_same_outputs', And(*[close(r0[k], rk[k]) for k in r0]))
    ctx.claim('copy_has_other_name', kopy.name != m.name)
    log = []
    for k in range(steps):
        log.append(do_edit(ctx, E, kopy, shk, k, counter))
    ctx.note('program=%s edits_of_copy=%s' % (program, log))
    structure_claims(ctx, 'copy_after_edits', kopy, shk)
    structure_claims(ctx, 'original_after_copy_was_edited', m, sh)
    r1 = meaning_claims(ctx, 'original_after_copy_was_edited', m, sh)


def h_save_load(ctx, program, steps):
    specs = PROGRAMS[program]
    E = EBuilt(ctx, specs, concrete_constants=True)
    m = E.model
    sh = Shadow(specs, E.const, E.obs)
    counter = [0]
    for k in range(steps):
        do_edit(ctx, E, m, sh, k, counter)
    d = tempfile.mkdtemp(prefix='symx_c14_')
    try:
        m.save(prefix=d)
        m2 = elfi.ElfiModel.load(m.name, prefix=d)
    finally:
        shutil.rmtree(d, ignore_errors=True)
    structure_claims(ctx, 'loaded', m2, sh)
    ra = meaning_claims(ctx, 'orig', m, sh)
    rb = meaning_claims(ctx, 'loaded', m2, sh)
    if ra is not None and rb is not None:
        ctx.claim('loaded_generates_same_outputs', And(*[close(ra[k], rb[k]) for k in ra]))
    ctx.claim('loaded_name', m2.name == m.name)


HARNESSES = [
    H('edit1_chain', h_edit, dict(program='chain', steps=1), bounds='program chain, every 1-step script'),
    H('edit2_chain', h_edit, dict(program='chain', steps=2), bounds='program chain, every 2-step script'),
    H('edit1_shared_constant', h_edit, dict(program='shared_constant', steps=1), bounds='program shared_constant, 1 step'),
    H('edit2_two_params_named', h_edit, dict(program='two_params_named', steps=2), bounds='program two_params_named, 2 steps',
      tiers=('thorough',)),
    H('edit3_mini', h_edit, dict(program='mini', steps=3), bounds='program mini (t -> sim -> s), every 3-step script',
      tiers=('thorough',), max_paths=600000),
    H('edit2_two_leaves', h_edit, dict(program='two_leaves', steps=2),
      bounds='program two_leaves (t; a(t); y(a,t); z(t)), every 2-step script (become with an existing leaf as replacement)'),
    H('edit1_family_3nodes', h_edit, dict(program=None, steps=1, family=3), tiers=('thorough',), max_paths=2000000,
      bounds='EVERY program of 3 nodes (kinds, positional / named edges, positional order, observations solver-chosen as in C03 '
             'gen_family_3nodes), every 1-step script'),
    H('copy_fork_sims', h_copy, dict(program='fork_sims', steps=1),
      bounds='program fork_sims (parents passed in another order than created), optional edit, copy, 1 edit of the copy'),
    H('copy_chain', h_copy, dict(program='chain', steps=1), bounds='program chain, optional edit, copy, 1 edit of the copy',
      ),
    H('copy_two_params_named', h_copy, dict(program='two_params_named', steps=1), tiers=('thorough',),
      bounds='program two_params_named, optional edit, copy, 1 edit of the copy'),
    H('save_load_chain', h_save_load, dict(program='chain', steps=1), bounds='program chain, 1 edit, save, load'),
    H('save_load_two_params_named', h_save_load, dict(program='two_params_named', steps=0), bounds='program two_params_named, save, load'),
]

MANIFEST = {
    'level_text': 'Bounded exploration of solver-chosen edit scripts on real models: after every edit the graph is a DAG with '
                  'parametrised edges, distinct positional parameters, and exactly the nodes / positional and named parents / '
                  'observations / parameter names that the property text prescribes (shadow description edited independently); '
                  'generate() of the edited model, of a copy and of a saved-and-loaded model equals the denotational meaning of the '
                  'shadow (EUF validity, operations uninterpreted); editing a copy leaves the original unchanged.',
    'level_note': 'scripts of <=2 edits in the quick tier (3 thorough) over 6 start programs (thorough: every 1-step script on EVERY 3-node program of the solver-chosen family); edit operands are enumerated by '
                  'solver-chosen indices (feasibility only), values are symbolic; structural claims are evaluated on the concrete '
                  'graph of each path and say so; pickle is trusted. z3 trusted.',
}
