"""A small ABC model on the real elfi graph machinery whose node operations hand out symbolic values.

    t (Prior, parameter) -> sim (Simulator) -> s (Summary) -> d (Discrepancy)

Every operation returns, for batch b and row i, the input named '<node>_<b>_<i>' (a fresh z3 real in symbolic
mode, the model's value in concrete mode).  Batch identity reaches the operations the way it does for user
code: the Prior sees the batch generator (built by the real RandomStateLoader from get_sub_seed(seed, b)),
the other nodes are declared uses_meta and read meta['batch_index'].
"""
import collections

import numpy as np

import elfi
import elfi.loader
import elfi.client
import elfi.executor
import elfi.store
import elfi.utils
import elfi.model.elfi_model as em
import elfi.methods.utils as mu
import elfi.methods.results as mres
import elfi.methods.inference.samplers as smp
import elfi.methods.inference.parameter_inference as pinf

from symx import core
from symx.core import INF
from symx.npfacade import patched, std_bindings, NPFacade, _Sub


class TagRS:
    """Stand-in for numpy.random.RandomState in elfi.loader: remembers the seed it was built from."""

    def __init__(self, seed=None):
        self.seed_value = seed

    def __getattr__(self, name):
        raise core.Cut('node operation drew from the batch generator (%s): not modelled in this world' % name)


class SubSeedMismatch(Exception):
    """A batch received a generator seed that is not the (seed, batch index)-only value."""


class World:
    def __init__(self, ctx, batch_size, seed=7, max_batches=6, d_specials=(INF,), nested_d=0, extra_param=False,
                 d_lo=None, bounded_prior=True, vector_summary=False, d_column=False):
        self.vector_summary = vector_summary      # the summary is a (batch, 2) array (second column: symbols 'sv')
        self.d_column = d_column                  # the discrepancy is a (batch, 1) column
        self.bounded_prior = bounded_prior
        self.ctx = ctx
        self.bs = batch_size
        self.seed = seed
        self.K = max_batches
        self.d_specials = d_specials
        self.nested_d = nested_d
        self.d_lo = d_lo
        self.values = {}                       # (node, b) -> list of row values
        self.calls = collections.Counter()     # (node, b) -> number of invocations
        self.consumed = []                     # batch indices in the order wait_next returned them
        self.sim_args = {}
        self.batch_of = {}
        for b in range(max_batches + 4):
            self.batch_of[int(elfi.utils.get_sub_seed(seed, b))] = b
        self.batch_of_inv = {b: s_ for s_, b in self.batch_of.items()}
        self.extra_param = extra_param
        self.model = self._build()

    # ---- values
    def col(self, node, b, n=None):
        n = n or self.bs
        key = (node, b)
        if b >= self.K:
            raise core.Cut('more than %d batches' % self.K)
        if key not in self.values:
            vals = []
            for i in range(n):
                nm = '%s_%d_%d' % (node, b, i)
                if node == 'd' and self.d_specials:
                    vals.append(self.ctx.xreal(nm, specials=self.d_specials, lo=self.d_lo))
                else:
                    vals.append(self.ctx.real(nm))
            self.values[key] = vals
        self.calls[key] += 1
        return self.ctx.array(self.values[key])

    def _b_from_rs(self, random_state):
        sv = getattr(random_state, 'seed_value', None)
        if sv is None or int(sv) not in self.batch_of:
            raise core.Cut('generator of an unknown batch (seed %r)' % (sv,))
        return self.batch_of[int(sv)]

    # ---- model
    def _build(self):
        w = self

        class PriorDist:
            @staticmethod
            def rvs(*params, size=None, random_state=None):
                return w.col('t', w._b_from_rs(random_state), size[0])

            @staticmethod
            def logpdf(x, *params):
                """Prior log-density: finite LOGPDF_t(x) on the support, -inf outside; support membership is the
                uninterpreted predicate INSUP_t (forks)."""
                ctx = w.ctx
                x = np.atleast_1d(np.asarray(x, dtype=object) if ctx.symbolic else np.asarray(x, dtype=float))
                out = np.empty(len(x), dtype=object if ctx.symbolic else float)
                for i in range(len(x)):
                    if w.bounded_prior and not bool(ctx.apply_uf('INSUP_t', [x[i]], sort='bool')):
                        out[i] = -INF
                    else:
                        out[i] = ctx.apply_uf('LOGPDF_t', [x[i]])
                return out

            @staticmethod
            def pdf(x, *params):
                ctx = w.ctx
                lp = PriorDist.logpdf(x, *params)
                return np.exp(lp) if not ctx.symbolic else np.array(
                    [0.0 if core._is_special(v) else v.exp() for v in lp], dtype=object)

        class PriorDist2:
            @staticmethod
            def rvs(*params, size=None, random_state=None):
                return w.col('u', w._b_from_rs(random_state), size[0])

            @staticmethod
            def logpdf(x, *params):
                ctx = w.ctx
                x = np.atleast_1d(np.asarray(x, dtype=object) if ctx.symbolic else np.asarray(x, dtype=float))
                out = np.empty(len(x), dtype=object if ctx.symbolic else float)
                for i in range(len(x)):
                    out[i] = ctx.apply_uf('LOGPDF_u', [x[i]])
                return out

            @staticmethod
            def pdf(x, *params):
                ctx = w.ctx
                lp = PriorDist2.logpdf(x, *params)
                return np.exp(lp) if not ctx.symbolic else np.array([v.exp() for v in lp], dtype=object)

        def sim(*params, batch_size=1, random_state=None, meta=None):
            w.sim_args[meta['batch_index']] = params       # what the simulator was asked to simulate
            return w.col('y', meta['batch_index'], batch_size)

        def summ(y, meta=None):
            if meta is None:       # observed twin of the summary: computed from the observed data, no meta edge
                return np.zeros((1, 2)) if w.vector_summary else np.zeros((1,))
            if w.vector_summary:
                return np.column_stack([w.col('s', meta['batch_index'], len(y)), w.col('sv', meta['batch_index'], len(y))])
            return w.col('s', meta['batch_index'], len(y))

        def disc(s, observed=None, meta=None):
            b = meta['batch_index']
            if w.nested_d:
                cols = [w.col('d%d' % k, b, len(s)) for k in range(w.nested_d)] + [w.col('d', b, len(s))]
                return np.column_stack(cols)
            if w.d_column:
                return np.column_stack([w.col('d', b, len(s))])
            return w.col('d', b, len(s))

        m = elfi.ElfiModel()
        t = elfi.Prior(PriorDist, model=m, name='t')
        parents = [t]
        if self.extra_param:
            parents.append(elfi.Prior(PriorDist2, model=m, name='u'))
        simn = elfi.Simulator(sim, *parents, observed=np.zeros((1, 1)), model=m, name='sim')
        simn.uses_meta = True
        sn = elfi.Summary(summ, simn, model=m, name='s')
        sn.uses_meta = True
        dn = elfi.Discrepancy(disc, sn, model=m, name='d')
        dn.uses_meta = True
        return m

    # ---- environment
    def env(self):
        ctx = self.ctx
        loader_np = NPFacade(random=_Sub(np.random, {'RandomState': TagRS}))
        w = self
        real_get_sub_seed = elfi.loader.get_sub_seed

        def checked_get_sub_seed(seed, sub_seed_index, *a, **kw):
            # observation point: the generator seed handed to batch i must be the one that depends on (seed, i) only
            got = real_get_sub_seed(seed, sub_seed_index, *a, **kw)
            want = w.batch_of_inv.get(int(sub_seed_index))
            if want is not None and seed == w.seed and int(got) != want:
                raise SubSeedMismatch('batch %d was given sub-seed %d (that of batch %s) instead of %d' % (
                    sub_seed_index, got, w.batch_of.get(int(got), '?'), want))
            return got
        b = [(elfi.loader, {'np': loader_np, 'get_sub_seed': checked_get_sub_seed})]
        b += std_bindings([smp, pinf, mu, mres], shadow_builtins=True)
        if not ctx.symbolic:
            # np.empty may return anything; the replay picks a recognisable sentinel instead of leaving it to the
            # allocator (which can hand back memory still holding an earlier batch)
            def empty(shape, dtype=float, **kw):
                a = np.empty(shape, dtype=dtype, **kw)
                if a.dtype.kind == 'f':
                    a.fill(-123456.789)
                return a
            b.append((smp, {'np': NPFacade(extra={'empty': empty})}))
        return patched(b)

    def watch(self, inference):
        """Record which batches the inference consumes (observation point: BatchHandler.wait_next)."""
        bh = inference.batches
        orig = bh.wait_next
        w = self

        def wait_next():
            batch, bi = orig()
            w.consumed.append(bi)
            return batch, bi
        bh.wait_next = wait_next

    def rows(self, batches, nodes=('t', 's', 'd')):
        """[(b, i, {node: value})] of the given batches."""
        out = []
        for b in batches:
            for i in range(self.bs):
                out.append((b, i, {n: self.values[(n, b)][i] for n in nodes if (n, b) in self.values}))
        return out
