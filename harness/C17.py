"""C17 Regression adjustment and model comparison equal their formulas."""
import itertools
from fractions import Fraction

import numpy as np

import elfi
import elfi.methods.post_processing as pp
import elfi.methods.model_selection as ms
import elfi.methods.results as mres

from symx import core
from symx.core import And, Or, Not, Implies, Sum, If, close, count_true, INF, NAN, SymX
from symx.explore import H
from symx.npfacade import patched, std_bindings, NPFacade

PROPERTY = 'C17'
EXPLANATION = ('LinearAdjustment / RegressionAdjustment (fit, _get_finite, _pairs, _input_variables through real model[s].observed, '
               'adjust), adjust_posterior and compare_models run on symbolic summaries / parameters (entries may be +inf or NaN) / '
               'discrepancies / simulation counts / prior weights; sklearn\'s LinearRegression is replaced by the ordinary '
               'least-squares solution in closed form (Cramer\'s rule, <= 2 regressors), which records the rows it is given.')
ASSUMPTIONS = [
    'sklearn.linear_model.LinearRegression().fit(X, y) returns the ordinary least-squares coefficients with intercept; the design '
    'matrix has full column rank (unique solution)',
    'exact reals; entries are finite, +inf or NaN',
    'model comparison: proportionality claim for pairwise distinct discrepancies (ties: only that the probabilities sum to one)',
]
OUTSIDE = ['sklearn\'s solver', 'rank-deficient designs', 'more than 2 summaries / 4 rows / 3 models']


class StubLR:
    """Closed-form OLS with intercept for 1 or 2 regressors."""
    fits = []

    def __init__(self, **kw):
        self.kw = kw

    def fit(self, X, y):
        ctx = core.cur()
        X = np.asarray(X, dtype=object if ctx.symbolic else float)
        y = list(np.asarray(y, dtype=object if ctx.symbolic else float).reshape(-1))
        n, k = X.shape
        StubLR.fits.append((X.copy(), list(y)))
        cols = [list(X[:, j]) for j in range(k)]
        mx = [Sum(c) / n for c in cols]
        my = Sum(y) / n
        cx = [[v - m for v in c] for c, m in zip(cols, mx)]
        cy = [v - my for v in y]
        if k == 1:
            sxx = Sum([v * v for v in cx[0]])
            ctx.assume(Not(sxx == 0))
            b = [Sum([a * b_ for a, b_ in zip(cx[0], cy)]) / sxx]
        elif k == 2:
            s11 = Sum([v * v for v in cx[0]])
            s22 = Sum([v * v for v in cx[1]])
            s12 = Sum([a * b_ for a, b_ in zip(cx[0], cx[1])])
            s1y = Sum([a * b_ for a, b_ in zip(cx[0], cy)])
            s2y = Sum([a * b_ for a, b_ in zip(cx[1], cy)])
            det = s11 * s22 - s12 * s12
            ctx.assume(Not(det == 0))
            b = [(s1y * s22 - s2y * s12) / det, (s2y * s11 - s1y * s12) / det]
        else:
            raise core.Cut('more than 2 regressors')
        self.coef_ = ctx.array(b)
        self.intercept_ = my - Sum([bi * mi for bi, mi in zip(b, mx)])
        return self


def build_model(ctx, sobs):
    m = elfi.ElfiModel()
    sim = elfi.Simulator(lambda batch_size=1, random_state=None: np.zeros(batch_size), observed=np.zeros(1), model=m, name='sim')
    for j, so in enumerate(sobs):
        elfi.Summary(lambda y, so=so: ctx.array([so]), sim, model=m, name='S%d' % j)
    return m


def env(ctx):
    StubLR.fits = []
    b = std_bindings([pp, mres], shadow_builtins=False)
    b.append((pp.LinearAdjustment, {'_regression_model': StubLR}))
    return patched(b)


def mk_vals(ctx, name, n, special_rows):
    out = []
    for i in range(n):
        if i in special_rows:
            out.append(ctx.xreal('%s%d' % (name, i), specials=(INF, NAN)))
        else:
            out.append(ctx.real('%s%d' % (name, i)))
    return out


def isfin(v):
    return not core._is_special(v) if core.is_sym(v) or isinstance(v, float) else True


def h_adjust(ctx, n, k, n_params, special_rows=(0,), reuse=False, requested=False):
    ctx.assume_nonzero_divisors = True
    S = [mk_vals(ctx, 's%d_' % j, n, special_rows if j == 0 else ()) for j in range(k)]
    TH = [mk_vals(ctx, 'th%d_' % p, n, special_rows if p == 0 else ()) for p in range(n_params)]
    sobs = [ctx.real('sobs%d' % j) for j in range(k)]
    pnames = ['p%d' % p for p in range(n_params)]
    snames = ['S%d' % j for j in range(k)]
    outputs = {pn: ctx.array(TH[p]) for p, pn in enumerate(pnames)}
    outputs.update({sn: ctx.array(S[j]) for j, sn in enumerate(snames)})
    with env(ctx):
        model = build_model(ctx, sobs)
        sample = mres.Sample(method_name='Rejection', outputs=outputs, parameter_names=pnames)
        adjm = pp.LinearAdjustment()
        if reuse:
            # the same adjustment object was used before on another sample
            S0 = [[ctx.real('old_s%d_%d' % (j, i)) for i in range(n)] for j in range(k)]
            T0 = [[ctx.real('old_th%d_%d' % (p, i)) for i in range(n)] for p in range(n_params)]
            o0 = {pn: ctx.array(T0[p]) for p, pn in enumerate(pnames)}
            o0.update({sn: ctx.array(S0[j]) for j, sn in enumerate(snames)})
            pp.adjust_posterior(mres.Sample(method_name='Rejection', outputs=o0, parameter_names=pnames), model, snames,
                                adjustment=adjm)
            StubLR.fits = []
        import warnings
        req = None
        if requested:
            # the caller asks for a subset / another order of the sample's parameters
            subsets = [list(c) for r in range(1, n_params + 1) for c in itertools.permutations(range(n_params), r)]
            req = subsets[ctx.choice('requested_parameters', len(subsets))]
        with warnings.catch_warnings():
            warnings.simplefilter('ignore')
            if req is None:
                res = pp.adjust_posterior(sample, model, snames, adjustment=adjm)
            else:
                res = pp.adjust_posterior(sample, model, snames, parameter_names=[pnames[p] for p in req], adjustment=adjm)
            # repeated use: the fitted adjustment is applied once more (adjust() is public) - it must start from the
            # sample's accepted values again, not from what the first application left behind
            res_again = adjm.adjust()
    fits = list(StubLR.fits)
    order = list(range(n_params)) if req is None else req
    ctx.claim('one_regression_per_parameter', len(fits) == len(order))
    for fit_index, p in enumerate(order):
        pn = pnames[p]
        rows = [i for i in range(n) if all(isfin(S[j][i]) for j in range(k)) and isfin(TH[p][i])]
        if fit_index >= len(fits):
            break
        X, y = fits[fit_index]
        ctx.claim('%s_fit_uses_exactly_the_finite_rows' % pn, X.shape == (len(rows), k) and len(y) == len(rows) and And(
            *[close(X[r, j], S[j][i] - sobs[j]) for r, i in enumerate(rows) for j in range(k)],
            *[close(y[r], TH[p][i]) for r, i in enumerate(rows)]))
        adj = res.outputs[pn]
        ctx.claim('%s_result_length' % pn, len(adj) == len(rows))
        # independent least squares on the reference rows
        ref = StubLR().fit(np.array([[S[j][i] - sobs[j] for j in range(k)] for i in rows], dtype=object if ctx.symbolic else float),
                           [TH[p][i] for i in rows])
        for r, i in enumerate(rows):
            want = TH[p][i] - Sum([(S[j][i] - sobs[j]) * ref.coef_[j] for j in range(k)])
            ctx.claim_poly('%s_row%d_is_theta_minus_slope_times_summary_difference' % (pn, i), adj[r], want)
            ctx.claim_poly('%s_row%d_same_value_when_the_fitted_adjustment_is_applied_again' % (pn, i),
                           res_again.outputs[pn][r], want)
    ctx.claim('result_is_a_sample_with_the_parameters', res.parameter_names == [pnames[p] for p in order])


def h_adjust_fixed_point(ctx, n, k):
    """A draw whose simulated summaries equal the observed ones is left unchanged."""
    ctx.assume_nonzero_divisors = True
    S = [[ctx.real('s%d_%d' % (j, i)) for i in range(n)] for j in range(k)]
    TH = [ctx.real('th%d' % i) for i in range(n)]
    sobs = [S[j][0] for j in range(k)]          # row 0 hits the observed summaries exactly
    outputs = {'p0': ctx.array(TH)}
    outputs.update({'S%d' % j: ctx.array(S[j]) for j in range(k)})
    with env(ctx):
        model = build_model(ctx, sobs)
        res = pp.adjust_posterior(mres.Sample(method_name='Rejection', outputs=outputs, parameter_names=['p0']), model,
                                  ['S%d' % j for j in range(k)])
    ctx.claim_poly('draw_with_observed_summaries_unchanged', res.outputs['p0'][0], TH[0])


def h_adjust_affine(ctx, n, k):
    """Adjusted values are unaffected by an invertible affine re-expression of the summaries."""
    ctx.assume_nonzero_divisors = True
    S = [[ctx.real('s%d_%d' % (j, i)) for i in range(n)] for j in range(k)]
    TH = [ctx.real('th%d' % i) for i in range(n)]
    sobs = [ctx.real('sobs%d' % j) for j in range(k)]
    A = [[ctx.real('A%d%d' % (a, b)) for b in range(k)] for a in range(k)]
    c = [ctx.real('c%d' % j) for j in range(k)]
    det = A[0][0] if k == 1 else A[0][0] * A[1][1] - A[0][1] * A[1][0]
    ctx.assume(Not(det == 0))

    def tr(row):
        return [Sum([row[a] * A[a][b] for a in range(k)]) + c[b] for b in range(k)]
    S2rows = [tr([S[j][i] for j in range(k)]) for i in range(n)]
    sobs2 = tr(sobs)
    with env(ctx):
        m1 = build_model(ctx, sobs)
        o1 = {'p0': ctx.array(TH)}
        o1.update({'S%d' % j: ctx.array(S[j]) for j in range(k)})
        r1 = pp.adjust_posterior(mres.Sample(method_name='R', outputs=o1, parameter_names=['p0']), m1, ['S%d' % j for j in range(k)])
        m2 = build_model(ctx, sobs2)
        o2 = {'p0': ctx.array(TH)}
        o2.update({'S%d' % j: ctx.array([S2rows[i][j] for i in range(n)]) for j in range(k)})
        r2 = pp.adjust_posterior(mres.Sample(method_name='R', outputs=o2, parameter_names=['p0']), m2, ['S%d' % j for j in range(k)])
    for i in range(n):
        ctx.claim_poly('row%d_invariant_under_affine_re_expression' % i, r2.outputs['p0'][i], r1.outputs['p0'][i])


# ---------------------------------------------------------------- model comparison

def h_compare(ctx, sizes, with_priors, distinct=True, int_priors=None):
    M = len(sizes)
    D = [[ctx.real('d%d_%d' % (m_, i)) for i in range(sizes[m_])] for m_ in range(M)]
    nsim = [ctx.int('nsim%d' % m_, 1, 1000) for m_ in range(M)]
    pri = [ctx.real('prior%d' % m_, 0, None, lo_open=True) for m_ in range(M)] if with_priors else None
    if int_priors:
        # prior weights given as integers (a list of ints or an integer ndarray), solver-chosen from {1,2,3}
        pri = [1 + ctx.choice('int_prior%d' % m_, 3) for m_ in range(M)]
    allv = [v for row in D for v in row]
    if distinct:
        for a in range(len(allv)):
            for b in range(a + 1, len(allv)):
                ctx.assume(Not(allv[a] == allv[b]))
    ctx.assume_nonzero_divisors = True

    def samples(order):
        return [mres.Sample(method_name='R', outputs={'p': ctx.array(D[m_]), 'd': ctx.array(D[m_])}, parameter_names=['p'],
                            discrepancy_name='d', n_sim=nsim[m_]) for m_ in order]
    perms = list(itertools.permutations(range(M)))
    perm = perms[ctx.choice('model_perm', len(perms))]
    with patched(std_bindings([ms], shadow_builtins=False)):
        if int_priors == 'list':
            p = ms.compare_models(samples(range(M)), model_priors=list(pri))
            q = ms.compare_models(samples(perm), model_priors=[pri[m_] for m_ in perm])
        elif int_priors == 'ndarray':
            p = ms.compare_models(samples(range(M)), model_priors=np.array(pri, dtype=int))
            q = ms.compare_models(samples(perm), model_priors=np.array([pri[m_] for m_ in perm], dtype=int))
        else:
            p = ms.compare_models(samples(range(M)), model_priors=ctx.array(pri) if pri else None)
            q = ms.compare_models(samples(perm), model_priors=ctx.array([pri[m_] for m_ in perm]) if pri else None)
    ctx.claim('one_probability_per_model', len(p) == M)
    ctx.claim_poly('probabilities_sum_to_one', Sum(list(p)), 1)
    if distinct:
        n_min = min(sizes)
        # counts: how many of the n_min jointly smallest discrepancies belong to each model
        cnt = []
        for m_ in range(M):
            cnt.append(count_true([count_true([w < v for w in allv]) < n_min for v in D[m_]]))
        wts = [SymX(core.z3.ToReal(cnt[m_].t)) if isinstance(cnt[m_], core.SymInt) else cnt[m_] for m_ in range(M)]
        raw = [wts[m_] / nsim[m_] * (pri[m_] if pri else 1) for m_ in range(M)]
        tot = Sum(raw)
        for m_ in range(M):
            ctx.claim('model%d_probability_proportional_to_share_over_nsim_times_prior' % m_, close(p[m_] * tot, raw[m_], 1e-7))
        for pos, m_ in enumerate(perm):
            ctx.claim('model%d_probability_moves_with_the_model' % m_, close(q[pos], p[m_], 1e-7))


HARNESSES = [
    H('adjust_n3_k1_p1', h_adjust, dict(n=3, k=1, n_params=1, special_rows=()), bounds='3 rows, 1 summary, 1 parameter, all finite'),
    H('adjust_n4_k1_p2_nonfinite', h_adjust, dict(n=4, k=1, n_params=2, special_rows=(0,)),
      bounds='4 rows, 1 summary, 2 parameters; row 0 of the summary and of parameter 0 may be +inf/NaN'),
    H('adjust_n4_k1_p2_requested_subset_nonfinite', h_adjust, dict(n=4, k=1, n_params=2, special_rows=(0,), requested=True),
      bounds='4 rows, 1 summary, 2 parameters; parameter_names= any non-empty subset in any order; row 0 of parameter 0 may be '
             '+inf/NaN'),
    H('adjust_n3_k2_p1', h_adjust, dict(n=3, k=2, n_params=1, special_rows=()), bounds='3 rows, 2 summaries, 1 parameter'),
    H('adjust_n4_k2_p1', h_adjust, dict(n=4, k=2, n_params=1, special_rows=()), bounds='4 rows, 2 summaries, 1 parameter', tiers=('thorough',),
      path_timeout=900),
    H('adjust_n5_k2_p1_nonfinite', h_adjust, dict(n=5, k=2, n_params=1, special_rows=(1,)), bounds='5 rows, 2 summaries, non-finite row',
      tiers=('thorough',), path_timeout=1800),
    H('adjust_reused_object', h_adjust, dict(n=3, k=1, n_params=1, special_rows=(), reuse=True),
      bounds='the same LinearAdjustment object adjusts a second sample (3 rows, 1 summary)'),
    H('fixed_point_n3_k1', h_adjust_fixed_point, dict(n=3, k=1), bounds='3 rows, 1 summary'),
    H('fixed_point_n4_k2', h_adjust_fixed_point, dict(n=4, k=2), bounds='4 rows, 2 summaries'),
    H('affine_n3_k1', h_adjust_affine, dict(n=3, k=1), bounds='3 rows, 1 summary, map s -> a s + c'),
    H('affine_n4_k1', h_adjust_affine, dict(n=4, k=1), bounds='4 rows, 1 summary, map s -> a s + c'),
    H('affine_n3_k2', h_adjust_affine, dict(n=3, k=2), bounds='3 rows, 2 summaries, invertible 2x2 map + shift', path_timeout=900,
      tiers=('thorough',)),
    H('compare_2models_2_2', h_compare, dict(sizes=(2, 2), with_priors=True), bounds='2 models with 2 samples each, priors'),
    H('compare_2models_2_3_nopriors', h_compare, dict(sizes=(2, 3), with_priors=False), bounds='2 models, 2 and 3 samples, default priors'),
    H('compare_3models_2_2_2', h_compare, dict(sizes=(2, 2, 2), with_priors=True), bounds='3 models with 2 samples each', tiers=('thorough',)),
    H('compare_2models_2_2_int_list_priors', h_compare, dict(sizes=(2, 2), with_priors=True, int_priors='list'),
      bounds='2 models with 2 samples each, prior weights a list of Python ints from {1,2,3}'),
    H('compare_2models_2_2_int_array_priors', h_compare, dict(sizes=(2, 2), with_priors=True, int_priors='ndarray'),
      bounds='2 models with 2 samples each, prior weights an int64 ndarray with values from {1,2,3}'),
    H('compare_ties_2_2', h_compare, dict(sizes=(2, 2), with_priors=True, distinct=False), bounds='2 models, ties allowed: sum to one'),
]

MANIFEST = {
    'level_text': 'Bounded symbolic execution of the real adjustment and model-comparison code: the regression receives exactly the '
                  'rows with finite summaries and finite parameter, every adjusted value equals theta minus the least-squares slope '
                  'times the summary difference (rational-function identity against an independently computed OLS), a draw that '
                  'hits the observed summaries is unchanged, the result is invariant under invertible affine re-expression of the '
                  'summaries; model probabilities sum to one, are proportional to share/n_sim*prior and permute with the models.',
    'level_note': 'LinearRegression replaced by closed-form OLS (<=2 regressors, full rank assumed); <=5 rows, <=3 models; requested parameter subset/order solver-chosen in one harness; exact '
                  'reals; identities decided by z3 polynomial normal form after clearing denominators, other claims by the solver.',
}
