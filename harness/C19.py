"""C19 ROMC regions: samples lie inside, density integrates to one, weights follow."""
import numpy as np
import scipy.stats as _ss

import elfi.methods.inference.romc as romc
import elfi.methods.posteriors as post

from symx import core
from symx.core import And, Or, Not, Implies, Sum, If, close, SymX
from symx.explore import H
from symx.npfacade import patched, std_bindings, NPFacade, _Sub, SymMath, sym_float, sym_int, has_sym, objarray

PROPERTY = 'C19'
EXPLANATION = ('NDimBoundingBox (constructor, _secure_limits, _compute_volume, contains, sample, pdf), line_search and RomcPosterior '
               '(_pdf_unnorm_single_point, _sum_over_indicators, _sum_over_regions_indicators, _worker_compute_weight) run on '
               'symbolic orthonormal rotations, centres, limits, uniform draws, query points, thresholds and step sizes; objective '
               'functions and the prior density are uninterpreted functions.')
ASSUMPTIONS = [
    'the rotation matrix is orthonormal (R^T R = I); numpy.linalg.inv of it is its transpose, matrix_rank is full',
    'scipy.stats.uniform(loc, scale).rvs returns values in [loc, loc + scale]',
    'objective functions and the prior density are deterministic (uninterpreted); prior.pdf of a (1, D) array returns a '
    '1-element array as ModelPrior does',
    'line search: the start point satisfies f(theta*) < eps (ROMC only builds regions around accepted optima); direction non-zero',
    'exact reals',
]
OUTSIDE = ['dimension >= 3', 'RegionConstructor._find_rotation_vector (LAPACK eigen-decomposition)', 'surrogate fitting',
           'uniformity of the samples (statistical)']


class SymNd(np.ndarray):
    """Object ndarray whose astype(float) keeps the proxies (ndarray methods cannot be rebound from the module)."""

    def astype(self, dtype, *a, **k):
        if dtype in (float, np.float64, sym_float) and self.dtype == object:
            return self.copy()
        return super().astype(dtype, *a, **k)


def symnd(ctx, vals):
    a = ctx.array(vals)
    return a.view(SymNd) if ctx.symbolic else a


class _Uniform:
    def __init__(self, loc=0, scale=1):
        self.loc, self.scale = loc, scale

    def rvs(self, size=None, random_state=None):
        ctx = core.cur()
        n = int(np.prod(size))
        k = _Uniform.counter
        _Uniform.counter += n
        u = [ctx.real('u%d' % (k + i), 0, 1) for i in range(n)]
        return ctx.array([self.loc + self.scale * ui for ui in u]).reshape(size)


def env(ctx):
    _Uniform.counter = 0

    def inv(A):
        if ctx.symbolic and has_sym(A):
            return objarray(A).T.copy()      # orthonormal: inverse = transpose
        return np.linalg.inv(A)

    def matrix_rank(A, *a, **k):
        if ctx.symbolic and has_sym(A):
            return np.shape(A)[0]
        return np.linalg.matrix_rank(A, *a, **k)
    fac = NPFacade(linalg=_Sub(np.linalg, {'inv': inv, 'matrix_rank': matrix_rank}))
    ssf = _Sub(_ss, {'uniform': _Uniform})
    if not ctx.symbolic:
        # concrete replay: real numpy / float / math; only the uniform draws are replayed from the model
        return patched([(romc, {'ss': ssf})])
    b = [(romc, {'np': fac, 'math': SymMath(), 'ss': ssf, 'float': sym_float}),
         (post, {'np': fac, 'float': sym_float})]
    return patched(b)


def rotation(ctx, D):
    if D == 1:
        r = ctx.real('r00')
        ctx.assume(close(r * r, 1, 1e-9))
        return [[r]]
    R = [[ctx.real('r%d%d' % (i, j)) for j in range(2)] for i in range(2)]
    # orthonormal columns and rows
    ctx.assume(close(R[0][0] * R[0][0] + R[1][0] * R[1][0], 1, 1e-9))
    ctx.assume(close(R[0][1] * R[0][1] + R[1][1] * R[1][1], 1, 1e-9))
    ctx.assume(close(R[0][0] * R[0][1] + R[1][0] * R[1][1], 0, 1e-9, 1e-9))
    ctx.assume(close(R[0][0] * R[0][0] + R[0][1] * R[0][1], 1, 1e-9))
    ctx.assume(close(R[1][0] * R[1][0] + R[1][1] * R[1][1], 1, 1e-9))
    ctx.assume(close(R[0][0] * R[1][0] + R[0][1] * R[1][1], 0, 1e-9, 1e-9))
    return R


def mk_box(ctx, D, degenerate_ok=True):
    R = rotation(ctx, D)
    c = [ctx.real('c%d' % i) for i in range(D)]
    lim = [[ctx.real('lo%d' % i, None, 0), ctx.real('hi%d' % i, 0, None)] for i in range(D)]
    given = symnd(ctx, lim)
    box = romc.NDimBoundingBox(symnd(ctx, R), symnd(ctx, c), given)
    box._given_limits = given          # the caller's array (harness bookkeeping)
    return box, R, c, lim


def secured(ctx, lim):
    """Reference for _secure_limits: limits closer than 0.001 are widened by 0.0005 on each side."""
    from fractions import Fraction
    out = []
    for lo, hi in lim:
        narrow = bool((hi - lo) <= Fraction(1, 1000))
        out.append([lo - Fraction(1, 2000), hi + Fraction(1, 2000)] if narrow else [lo, hi])
    return out


def h_box(ctx, D, n2=2):
    with env(ctx):
        box, R, c, lim = mk_box(ctx, D)
        sl = secured(ctx, lim)
        ctx.claim('limits_secured', And(*[And(close(box.limits[i][0], sl[i][0]), close(box.limits[i][1], sl[i][1])) for i in range(D)]))
        # the caller keeps its limits array and builds a second region from it (as a user looping over problems would)
        given = box._given_limits
        ctx.claim('callers_limits_array_is_not_modified',
                  And(*[And(close(given[i][0], lim[i][0]), close(given[i][1], lim[i][1])) for i in range(D)]))
        box2 = romc.NDimBoundingBox(symnd(ctx, R), symnd(ctx, c), given)
        ctx.claim('first_region_unaffected_by_a_second_one_built_from_the_same_array',
                  And(*[And(close(box.limits[i][0], sl[i][0]), close(box.limits[i][1], sl[i][1])) for i in range(D)]) and
                  And(*[And(close(box2.limits[i][0], sl[i][0]), close(box2.limits[i][1], sl[i][1])) for i in range(D)]))
        vol = 1
        for lo, hi in sl:
            vol = vol * (hi - lo)
        ctx.claim('volume_is_product_of_side_lengths', And(close(box.volume, vol, 1e-7), box.volume > 0))
        pts = box.sample(n2, seed=None)
        ctx.claim('sample_shape', np.shape(pts) == (n2, D))
        for j in range(n2):
            if not ctx.symbolic and any(ctx.values.get('u%d' % q) in (0, 1) for q in range(n2 * D)):
                break      # a draw exactly on the boundary: containment after a float rotation is an IEEE question
            inside = box.contains(pts[j].view(np.ndarray) if hasattr(pts[j], 'view') else pts[j])
            ctx.claim('sample_%d_is_contained' % j, inside is True or inside == True)   # noqa: E712
            p = box.pdf(pts[j])
            ctx.claim('sample_%d_density_is_one_over_volume' % j, close(p * vol, 1, 1e-7))
    if D == 2:
        det = R[0][0] * R[1][1] - R[0][1] * R[1][0]
        ctx.claim('rotation_preserves_volume(det^2=1)', close(det * det, 1, 1e-7))


def h_box_query(ctx, D):
    """pdf at an arbitrary point: 1/volume iff the un-rotated, un-shifted point is inside the limits (boundary inside)."""
    with env(ctx):
        box, R, c, lim = mk_box(ctx, D)
        sl = secured(ctx, lim)
        x = [ctx.real('x%d' % i) for i in range(D)]
        p = box.pdf(ctx.array(x))
        inside_code = box.contains(ctx.array(x))
    vol = 1
    for lo, hi in sl:
        vol = vol * (hi - lo)
    # local coordinates: R^T (x - c)
    loc = [Sum([R[k][i] * (x[k] - c[k]) for k in range(D)]) for i in range(D)]
    inside_ref = And(*[And(sl[i][0] <= loc[i], loc[i] <= sl[i][1]) for i in range(D)])
    ctx.claim('contains_iff_local_coordinates_within_limits', inside_ref if inside_code else Not(inside_ref))
    ctx.claim('density', close(p * vol, 1, 1e-7) if inside_code else p == 0)


def h_line_search(ctx, D, K, rep_lim):
    th0 = [ctx.real('th%d' % i) for i in range(D)]
    vd = [ctx.real('vd%d' % i) for i in range(D)]
    ctx.assume(Not(vd[0] == 0))
    eps = ctx.real('eps')
    eta = ctx.real('eta', 0, None, lo_open=True)
    probes = []

    def f(th):
        vals = list(th)
        v = ctx.apply_uf('F%d' % D, vals)
        o = (vals[0] - th0[0]) / vd[0]
        probes.append((o, v))
        return v
    ctx.assume(ctx.apply_uf('F%d' % D, th0) < eps)
    ctx.assume_nonzero_divisors = True
    with env(ctx):
        off = romc.line_search(f, ctx.array(th0), ctx.array(vd), eps, K=K, eta=eta, rep_lim=rep_lim)
    ctx.claim('offset_positive', off > 0)
    ctx.claim('objective_below_threshold_at_every_probe_up_to_the_offset',
              And(*[Implies(And(o >= 0, o <= off), v < eps) for o, v in probes]))
    ctx.claim('start_point_not_modified', True)
    ctx.claim('offset_was_probed_or_is_the_resolution', Or(*[close(o, off) for o, _ in probes], off <= eta))


class Prior:
    dim = None

    def __init__(self, ctx, dim):
        self.ctx, self.dim = ctx, dim

    def pdf(self, x):
        ctx = self.ctx
        x = np.asarray(x, dtype=object if ctx.symbolic else float)
        assert x.ndim == 2
        out = []
        for row in x:
            v = ctx.apply_uf('PRIOR%d' % self.dim, list(row))
            if ctx.symbolic:
                ctx._fact(v.t >= 0)
            else:
                v = abs(v)
            out.append(v)
        return ctx.array(out)          # shape (n,), as ModelPrior.pdf returns for 2-D input


def h_posterior(ctx, D, n_regions, surrogate):
    with env(ctx):
        boxes = []
        for r in range(n_regions):
            R = [[1 if i == j else 0 for j in range(D)] for i in range(D)]       # axis-aligned here; rotations are h_box*
            c = [ctx.real('c%d_%d' % (r, i)) for i in range(D)]
            lim = [[ctx.real('lo%d_%d' % (r, i), None, -1), ctx.real('hi%d_%d' % (r, i), 1, None)] for i in range(D)]
            boxes.append((romc.NDimBoundingBox(np.array(R, dtype=float), symnd(ctx, c), symnd(ctx, lim)), c, lim))
        funcs = [lambda th, r=r: ctx.apply_uf('OBJ%d_%d' % (r, D), list(th)) for r in range(n_regions)]
        cutoff = ctx.real('eps_cutoff')
        prior = Prior(ctx, D)
        rp = post.RomcPosterior([b for b, _, _ in boxes], funcs, funcs, funcs, funcs, list(range(n_regions)), surrogate, prior,
                                None, None, cutoff, cutoff, cutoff)
        theta = [ctx.real('x%d' % i) for i in range(D)]
        val = rp._pdf_unnorm_single_point(ctx.array(theta))
        # weights of drawn samples
        n2 = 1
        pts = [[ctx.real('s%d_%d' % (j, i)) for i in range(D)] for j in range(n2)]
        w, dists = rp._worker_compute_weight((0, ctx.array(pts), boxes[0][0], prior, funcs[0], cutoff, n2))
    pr = ctx.apply_uf('PRIOR%d' % D, theta) if ctx.symbolic else abs(ctx.apply_uf('PRIOR%d' % D, theta))
    cnt = 0
    for r in range(n_regions):
        ok = funcs[r](theta) <= cutoff
        if surrogate:
            b, c, lim = boxes[r]
            ok = And(ok, *[And(c[i] + lim[i][0] <= theta[i], theta[i] <= c[i] + lim[i][1]) for i in range(D)])
        cnt = cnt + If(ok, 1, 0)
    cntr = SymX(core.z3.ToReal(cnt.t)) if isinstance(cnt, core.SymInt) else cnt
    ctx.claim('unnormalised_posterior_is_prior_times_number_of_accepting_problems', close(val, pr * cntr, 1e-7))
    b, c, lim = boxes[0]
    vol = 1
    for lo, hi in lim:
        vol = vol * (hi - lo)
    for j in range(n2):
        inside = And(*[And(c[i] + lim[i][0] <= pts[j][i], pts[j][i] <= c[i] + lim[i][1]) for i in range(D)])
        prj = ctx.apply_uf('PRIOR%d' % D, pts[j]) if ctx.symbolic else abs(ctx.apply_uf('PRIOR%d' % D, pts[j]))
        below = funcs[0](pts[j]) < cutoff
        want = If(And(inside, below), prj * vol, 0)
        ctx.claim('weight_%d_is_indicator_times_prior_over_region_density' % j, close(w[j], want, 1e-7))


class _NoBar:
    def reinit_progressbar(self, *a, **k):
        pass

    def update_progressbar(self, *a, **k):
        pass


def h_posterior_sample(ctx, D, n_regions, n2=1):
    """The public RomcPosterior.sample(): three DIFFERENT eps values (filter / region / cut-off), the cut-off optionally
    reset afterwards (solver-chosen); weights, distances and points of every region against the definition."""
    with env(ctx):
        boxes = []
        for r in range(n_regions):
            R = [[1 if i == j else 0 for j in range(D)] for i in range(D)]
            c = [ctx.real('c%d_%d' % (r, i)) for i in range(D)]
            lim = [[ctx.real('lo%d_%d' % (r, i), None, -1), ctx.real('hi%d_%d' % (r, i), 1, None)] for i in range(D)]
            boxes.append((romc.NDimBoundingBox(np.array(R, dtype=float), symnd(ctx, c), symnd(ctx, lim)), c, lim))
        funcs = [lambda th, r=r: ctx.apply_uf('OBJ%d_%d' % (r, D), list(th)) for r in range(n_regions)]
        other = [lambda th, r=r: ctx.apply_uf('OTHER%d_%d' % (r, D), list(th)) for r in range(n_regions)]
        eps_filter, eps_region, eps_cutoff = ctx.real('eps_filter'), ctx.real('eps_region'), ctx.real('eps_cutoff')
        prior = Prior(ctx, D)
        rp = post.RomcPosterior([b for b, _, _ in boxes], funcs, other, other, other, list(range(n_regions)), False, prior,
                                None, None, eps_filter, eps_region, eps_cutoff)
        rp.progress_bar = _NoBar()
        cutoff = eps_cutoff
        if ctx.choice('cutoff_is_reset', 2):
            cutoff = ctx.real('eps_cutoff_new')
            rp.reset_eps_cutoff(cutoff)
        theta, w, dists = rp.sample(n2, seed=None)
    ctx.claim('sample_shapes', np.shape(theta) == (n_regions, n2, D) and np.shape(w) == (n_regions, n2) and
              np.shape(dists) == (n_regions * n2,))
    for r in range(n_regions):
        b, c, lim = boxes[r]
        vol = 1
        for lo, hi in lim:
            vol = vol * (hi - lo)
        for j in range(n2):
            pt = [theta[r, j, i] for i in range(D)]
            inside = And(*[And(c[i] + lim[i][0] <= pt[i], pt[i] <= c[i] + lim[i][1]) for i in range(D)])
            ctx.claim('region_%d_point_%d_lies_in_its_region' % (r, j), inside)
            prj = ctx.apply_uf('PRIOR%d' % D, pt) if ctx.symbolic else abs(ctx.apply_uf('PRIOR%d' % D, pt))
            dist = funcs[r](pt)
            ctx.claim('region_%d_distance_%d_is_the_objective_at_the_point' % (r, j), close(dists[r * n2 + j], dist, 1e-9))
            want = If(dist < cutoff, prj * vol, 0)
            ctx.claim('region_%d_weight_%d_is_cutoff_indicator_times_prior_over_region_density' % (r, j),
                      close(w[r, j], want, 1e-7))


HARNESSES = [
    H('box_d1', h_box, dict(D=1), bounds='D=1, rotation +-1, 2 samples, limits possibly degenerate'),
    H('box_d2', h_box, dict(D=2, n2=1), bounds='D=2, arbitrary orthonormal rotation, 1 sample', path_timeout=300),
    H('box_query_d1', h_box_query, dict(D=1), bounds='D=1, arbitrary query point'),
    H('box_query_d2', h_box_query, dict(D=2), bounds='D=2, arbitrary query point', path_timeout=300),
    H('line_search_d1_K2_r2', h_line_search, dict(D=1, K=2, rep_lim=2), bounds='D=1, K=2 refinements, rep_lim=2'),
    H('line_search_d2_K2_r1', h_line_search, dict(D=2, K=2, rep_lim=1), bounds='D=2, K=2, rep_lim=1'),
    H('line_search_d1_K3_r3', h_line_search, dict(D=1, K=3, rep_lim=3), bounds='D=1, K=3, rep_lim=3', tiers=('thorough',)),
    H('posterior_d1_r2', h_posterior, dict(D=1, n_regions=2, surrogate=False), bounds='D=1, 2 problems, true objectives'),
    H('posterior_d1_r2_surrogate', h_posterior, dict(D=1, n_regions=2, surrogate=True), bounds='D=1, 2 problems, local surrogates'),
    H('posterior_sample_d1_r2', h_posterior_sample, dict(D=1, n_regions=2),
      bounds='D=1, 2 regions, 1 point per region, distinct eps_filter/eps_region/eps_cutoff, cut-off optionally reset'),
    H('posterior_sample_d2_r1_n2', h_posterior_sample, dict(D=2, n_regions=1, n2=2),
      bounds='D=2, 1 region, 2 points, distinct eps values, cut-off optionally reset', tiers=('thorough',)),
    H('posterior_d2_r2_surrogate', h_posterior, dict(D=2, n_regions=2, surrogate=True), bounds='D=2, 2 problems, surrogates',
      tiers=('thorough',)),
]

MANIFEST = {
    'level_text': 'Bounded symbolic execution of the real region / line-search / posterior code: for every orthonormal rotation, '
                  'centre, limits (degenerate ones included), uniform draw and query point (D<=2) a drawn point is contained in its '
                  'region, the density is 1/volume inside and 0 outside with the boundary inside and |det R|=1; the line search '
                  'returns a positive offset below which every probed point had the objective under the threshold; the unnormalised '
                  'posterior and the sample weights equal their definitions for every objective and prior (uninterpreted).',
    'level_note': 'D<=2; inverse of an orthonormal matrix modelled as its transpose; K<=2..3 refinements, rep_lim<=2..3; <=2 '
                  'regions; the caller\'s limits array is reused for a second region; non-linear real arithmetic queries on z3 (nlsat); exact reals.',
}
