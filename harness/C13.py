"""C13 Weighted-sample statistics and the mixture proposal obey their definitions."""
import numpy as np

from symx import core
from symx.core import And, Or, Not, Implies, Sum, close, If
from fractions import Fraction
from symx.explore import H
from symx.npfacade import patched, std_bindings, NPFacade
from symx.stubs import SSFacade, SymRandomState

import elfi.methods.utils as mu

PROPERTY = 'C13'
EXPLANATION = ('weighted_sample_quantile, weighted_var, normalize_weights, compute_ess and GMDistribution.pdf/logpdf/rvs of '
               'elfi.methods.utils are executed on object arrays of z3 real terms through the real numpy; the defining '
               'inequalities / formulas are validity queries per path.')
ASSUMPTIONS = [
    'numbers are exact reals (IEEE rounding/overflow outside the claim); weights >= 0 with positive sum; alpha in [0,1]',
    'scipy.stats.multivariate_normal.pdf is the uninterpreted function MVNPDF(x, mean, cov) >= 0; '
    'multivariate_normal.rvs and RandomState.choice return arbitrary values of the documented shape/range '
    '(choice never returns an index of probability 0)',
    'np.empty returns arbitrary (unconstrained) values',
]
OUTSIDE = ['NaN inputs', 'sample sizes beyond the bound', 'rvs needing more trials than the bound (Cut)',
           'distribution of rvs output']


def env(ctx):
    return patched(std_bindings([mu]) + [(mu, {'ss': SSFacade()})])


def leq(a, b):
    """a <= b (tolerant on concrete floats)."""
    if core.is_sym(a) or core.is_sym(b):
        return a <= b
    return float(a) <= float(b) + 1e-9 * max(1.0, abs(float(a)), abs(float(b)))


# ---------------------------------------------------------------- quantile

def h_quantile(ctx, n, with_weights=True):
    x = [ctx.real('x%d' % i) for i in range(n)]
    if with_weights:
        w = [ctx.real('w%d' % i, lo=0) for i in range(n)]
        ctx.assume(Sum(w) > 0)
    else:
        w = None
    alpha = ctx.real('alpha', 0, 1)
    with env(ctx):
        xa, wa = ctx.array(x), (ctx.array(w) if w is not None else None)
        q = mu.weighted_sample_quantile(xa, alpha, wa)
        # the same arrays are used again (as a caller computing several statistics of one sample does): the answer must
        # still be a quantile of the ORIGINAL sample (rescaled weights would be fine, a re-ordered sample would not)
        q_again = mu.weighted_sample_quantile(xa, alpha, wa)
    ctx.output('q', q)
    ww = w if w is not None else [Fraction(1)] * n
    W = Sum(ww)
    ctx.claim('q_in_sample', Or(*[q == xi for xi in x]))
    w_le = Sum([If(xi <= q, wi, 0) for xi, wi in zip(x, ww)])
    w_lt = Sum([If(xi < q, wi, 0) for xi, wi in zip(x, ww)])
    ctx.claim('weight_le_q_at_least_alpha', leq(alpha * W, w_le))
    ctx.claim('weight_lt_q_at_most_alpha', leq(w_lt, alpha * W))
    w_le2 = Sum([If(xi <= q_again, wi, 0) for xi, wi in zip(x, ww)])
    w_lt2 = Sum([If(xi < q_again, wi, 0) for xi, wi in zip(x, ww)])
    ctx.claim('second_call_on_the_same_arrays_is_still_a_quantile_of_the_sample',
              And(Or(*[q_again == xi for xi in x]), leq(alpha * W, w_le2), leq(w_lt2, alpha * W)))


def h_quantile_monotone(ctx, n):
    x = [ctx.real('x%d' % i) for i in range(n)]
    w = [ctx.real('w%d' % i, lo=0) for i in range(n)]
    ctx.assume(Sum(w) > 0)
    a1 = ctx.real('alpha1', 0, 1)
    a2 = ctx.real('alpha2', 0, 1)
    ctx.assume(a1 <= a2)
    with env(ctx):
        q1 = mu.weighted_sample_quantile(ctx.array(x), a1, ctx.array(w))
        q2 = mu.weighted_sample_quantile(ctx.array(x), a2, ctx.array(w))
    ctx.claim('monotone_in_alpha', leq(q1, q2))


def h_quantile_scale(ctx, n):
    x = [ctx.real('x%d' % i) for i in range(n)]
    w = [ctx.real('w%d' % i, lo=0) for i in range(n)]
    ctx.assume(Sum(w) > 0)
    c = ctx.real('c', 0, None, lo_open=True)
    alpha = ctx.real('alpha', 0, 1)
    with env(ctx):
        q1 = mu.weighted_sample_quantile(ctx.array(x), alpha, ctx.array(w))
        q2 = mu.weighted_sample_quantile(ctx.array(x), alpha, ctx.array([c * wi for wi in w]))
    if not ctx.symbolic:
        # on floats, scaling the weights can move alpha*W across a cumulative-weight boundary by rounding: the
        # invariance is a statement over the reals (see OUTSIDE); such boundary cases are skipped on replay
        W = float(sum(w))
        cum = np.cumsum(np.array(w, dtype=float)[np.argsort(np.array(x, dtype=float))]) / W
        if any(abs(float(alpha) - cv) < 1e-9 for cv in cum) or float(alpha) == 0:
            ctx.claim('invariant_to_weight_scale', True)
            return
    ctx.claim('invariant_to_weight_scale', close(q1, q2))


def h_quantile_fp_probe(ctx, n, direction):
    """IEEE probe: doubles w_0..w_{n-1} whose normalised float cumulative sum ends below (above) 1.0 are asked from a
    QF_FP query over numpy's operations (sequential sum, division, cumulative sum, round-to-nearest-even); the real
    function runs on exactly those doubles at alpha = 1 and just below, and the definition is evaluated in rationals."""
    from symx import fpprobe as fp
    names = ['w%d' % i for i in range(n)]
    tot = fp.seq_sum(names)
    ps = ['(fp.div RNE %s %s)' % (w, tot) for w in names]
    cum = fp.seq_sum(ps)
    asserts = ['(fp.geq %s %s)' % (w, fp.const(0.5)) for w in names] + ['(fp.leq %s %s)' % (w, fp.const(4.0)) for w in names]
    asserts.append('(%s %s %s)' % ('fp.lt' if direction == 'below' else 'fp.gt', cum, fp.const(1.0)))
    verdict, vals = fp.solve(names, asserts, timeout_s=240)
    ctx.note('QF_FP query (%d doubles, cumulative sum %s 1.0): %s' % (n, direction, verdict if verdict != 'unknown' else vals))
    if verdict != 'sat':
        # no adversarial input obtained: nothing is claimed (reported as a cut path, not as success of the probe)
        raise core.Cut('float probe: solver answered %s' % verdict)
    w = np.array([vals[k] for k in names], dtype=float)
    cs = np.cumsum(w / np.sum(w))
    ctx.claim('solver_model_has_the_requested_rounding_on_numpy', bool(cs[-1] < 1.0) if direction == 'below' else bool(cs[-1] > 1.0))
    x = np.array([float(3 * i + 1) for i in range(n)][::-1])      # distinct, unsorted (descending)
    W = sum(Fraction(v) for v in w)
    for alpha in (1.0, float(np.nextafter(1.0, 0.0)), 0.5):
        q = mu.weighted_sample_quantile(x.copy(), alpha, w.copy())
        w_le = sum(Fraction(wi) for xi, wi in zip(x, w) if xi <= q)
        w_lt = sum(Fraction(wi) for xi, wi in zip(x, w) if xi < q)
        tag = 'alpha_%r' % alpha
        ctx.claim(tag + '_q_in_sample', bool(any(q == xi for xi in x)))
        ctx.claim(tag + '_weight_le_q_at_least_alpha', Fraction(alpha) * W <= w_le)
        ctx.claim(tag + '_weight_lt_q_at_most_alpha', w_lt <= Fraction(alpha) * W)
    q1 = mu.weighted_sample_quantile(x.copy(), 1.0, w.copy())
    q0 = mu.weighted_sample_quantile(x.copy(), 0.99, w.copy())
    ctx.claim('monotone_in_alpha_at_one', bool(q0 <= q1))
    ctx.claim('quantile_at_one_is_the_maximum', bool(q1 == x.max()))


# ---------------------------------------------------------------- variance / ESS

def h_wvar(ctx, n, d, with_weights=True):
    X = [[ctx.real('x%d_%d' % (i, j)) for j in range(d)] for i in range(n)]
    if with_weights:
        w = [ctx.real('w%d' % i, lo=0) for i in range(n)]
    else:
        w = None
    ww = w if w is not None else [Fraction(1)] * n
    V1 = Sum(ww)
    V2 = Sum([wi * wi for wi in ww])
    ctx.assume(V1 > 0)
    ctx.assume(Not(V1 * V1 == V2))   # at least two effective observations
    with env(ctx):
        xa = ctx.array(X) if d > 1 else ctx.array([r[0] for r in X])
        wa = ctx.array(w) if w is not None else None
        s2 = mu.weighted_var(xa, wa)
        s2_again = np.atleast_1d(mu.weighted_var(xa, wa))     # same arrays used again
    s2 = np.atleast_1d(s2)
    ctx.claim('shape', len(s2) == d)
    for j in range(d):
        xbar = Sum([wi * X[i][j] for i, wi in enumerate(ww)]) / V1
        ref = V1 / (V1 * V1 - V2) * Sum([wi * (X[i][j] - xbar) * (X[i][j] - xbar) for i, wi in enumerate(ww)])
        ctx.output('s2_%d' % j, s2[j])
        ctx.claim_poly('reliability_weights_formula_%d' % j, s2[j], ref)
        ctx.claim_poly('second_call_on_the_same_arrays_same_formula_%d' % j, s2_again[j], ref)


def h_ess(ctx, n):
    w = [ctx.real('w%d' % i, lo=0) for i in range(n)]
    ctx.assume(Sum(w) > 0)
    with env(ctx):
        wa = ctx.array(w)
        nw = mu.normalize_weights(wa)
        ess = mu.compute_ess(wa)          # the same array after it went through normalize_weights
    S = Sum(w)
    ctx.assume_nonzero_divisors = True
    ctx.claim_poly('ess_formula', ess, S * S / Sum([wi * wi for wi in w]))
    ctx.claim('normalized_sum_one', close(Sum(list(nw)), 1))
    ctx.claim('normalized_proportional', And(*[close(nw[i] * S, w[i]) for i in range(n)]))


def h_normalize_rejects(ctx, n):
    """Negative or all-zero weights are refused."""
    w = [ctx.real('w%d' % i) for i in range(n)]
    bad = Or(Or(*[wi < 0 for wi in w]), Sum(w) == 0)
    raised = False
    with env(ctx):
        try:
            mu.normalize_weights(ctx.array(w))
        except ValueError:
            raised = True
    ctx.claim('raises_iff_invalid', bad if raised else Not(bad))


# ---------------------------------------------------------------- mixture

def h_gm_pdf(ctx, k, d, xform, covform, with_weights=True):
    """xform: 'scalar' | '1d' | '2d' ; covform: 'scalar' | 'matrix'."""
    means = [[ctx.real('m%d_%d' % (j, c)) for c in range(d)] for j in range(k)]
    if with_weights:
        w = [ctx.real('w%d' % j, lo=0) for j in range(k)]
        ctx.assume(Sum(w) > 0)
    else:
        w = None
    ww = w if w is not None else [Fraction(1)] * k
    if covform == 'scalar':
        cov = ctx.real('cov', 0, None, lo_open=True)
        covl = [cov]
    else:
        covm = [[ctx.real('cov%d_%d' % (a, b)) for b in range(d)] for a in range(d)]
        cov = ctx.array(covm)
        covl = [c for r in covm for c in r]
        # the library's documented precondition: symmetric positive definite
        ctx.assume(And(*[covm[a][b] == covm[b][a] for a in range(d) for b in range(a)]))
        ctx.assume(covm[0][0] > 0)
        if d == 2:
            ctx.assume(covm[0][0] * covm[1][1] - covm[0][1] * covm[1][0] > 0)
    nrows = 2
    if xform == 'scalar':
        assert d == 1
        xs = [[ctx.real('x0')]]
        x = xs[0][0]
    elif xform == '1d':
        if d == 1:
            xs = [[ctx.real('x%d' % i)] for i in range(nrows)]
            x = ctx.array([r[0] for r in xs])
        else:
            xs = [[ctx.real('x0_%d' % c) for c in range(d)]]
            x = ctx.array(xs[0])
    else:
        xs = [[ctx.real('x%d_%d' % (i, c)) for c in range(d)] for i in range(nrows)]
        x = ctx.array(xs)
    if d == 1:
        marr = ctx.array([m[0] for m in means])
    else:
        marr = ctx.array(means)
    if k == 1 and d > 1:
        marr = ctx.array(means)  # shape (1, d): squeeze makes it 1-D means of d scalar components!
    with env(ctx):
        p = mu.GMDistribution.pdf(x, marr, cov=cov, weights=ctx.array(w) if w is not None else None)
        lp = mu.GMDistribution.logpdf(x, marr, cov=cov, weights=ctx.array(w) if w is not None else None)
    W = Sum(ww)
    # expected shape
    parr = np.asarray(p, dtype=object) if ctx.symbolic else np.asarray(p)
    lparr = np.asarray(lp, dtype=object) if ctx.symbolic else np.asarray(lp)
    if xform == 'scalar' or (xform == '1d' and d > 1):
        ctx.claim('shape', parr.shape == () and lparr.shape == ())
    else:
        ctx.claim('shape', parr.shape == (len(xs),) and lparr.shape == (len(xs),))
    pf = parr.reshape(-1)
    lpf = lparr.reshape(-1)
    for i, row in enumerate(xs):
        comps = [ctx.apply_uf('MVNPDF%d' % d, list(row) + list(means[j]) + covl) for j in range(k)]
        ref = Sum([ww[j] / W * comps[j] for j in range(k)])
        ctx.output('pdf%d' % i, pf[i])
        ctx.claim('pdf_is_weighted_sum_%d' % i, close(pf[i], ref))
        if ctx.symbolic:
            # log density = LOG(pdf) when pdf>0, -inf when pdf == 0
            if isinstance(lpf[i], core.SymX):
                ctx.claim('logpdf_is_log_of_pdf_%d' % i, And(ref > 0, lpf[i] == ctx.uf_log(ref)))
            else:
                ctx.claim('logpdf_is_log_of_pdf_%d' % i, And(lpf[i] == -core.INF, ref == 0))
        else:
            import math
            ctx.claim('logpdf_is_log_of_pdf_%d' % i, close(lpf[i], math.log(ref) if ref > 0 else -core.INF, 1e-7))


def h_gm_rvs(ctx, k, d, size, max_trials=3, with_constraint=True):
    means = [[ctx.real('m%d_%d' % (j, c)) for c in range(d)] for j in range(k)]
    w = [ctx.real('w%d' % j, lo=0) for j in range(k)]
    ctx.assume(Sum(w) > 0)
    rs = SymRandomState('rs')
    cand = []      # every candidate row the constraint saw, with its validity
    trials = [0]

    def prior_logpdf(x):
        trials[0] += 1
        if trials[0] > max_trials:
            raise core.Cut('rvs needs more than %d trials' % max_trials)
        x = np.atleast_2d(x) if d > 1 else np.asarray(x, dtype=object if ctx.symbolic else float).reshape(-1, 1)
        out = np.empty(len(x), dtype=object if ctx.symbolic else float)
        for i, row in enumerate(x):
            ok = ctx.flag('valid%d' % len(cand))
            cand.append((list(row), ok))
            out[i] = ctx.real('lp%d' % len(cand)) if ok else -core.INF
        return out
    marr = ctx.array([m[0] for m in means]) if d == 1 else ctx.array(means)
    with env(ctx):
        out = mu.GMDistribution.rvs(marr, cov=ctx.real('cov', 0, None, lo_open=True), weights=ctx.array(w), size=size,
                                    prior_logpdf=prior_logpdf if with_constraint else None, random_state=rs)
    ctx.claim('n_rows', len(out) == size)
    out2 = np.asarray(out, dtype=object if ctx.symbolic else float).reshape(size, -1)
    if with_constraint:
        for i in range(size):
            ctx.claim('row_%d_is_a_valid_candidate' % i,
                      Or(*[And(ok, *[close(out2[i][c], row[c]) for c in range(d)]) for row, ok in cand if ok]))
        # all valid candidates appear, in order (nothing dropped, nothing duplicated)
        valid = [row for row, ok in cand if ok]
        ctx.claim('exactly_the_valid_candidates_in_order',
                  len(valid) >= size and And(*[close(out2[i][c], valid[i][c]) for i in range(size) for c in range(d)]))
    else:
        # each output row = mean[chosen] + perturbation (draw log): component index in range
        ctx.claim('rows_finite', all(not core._is_special(v) for v in out2.reshape(-1)))


HARNESSES = [
    H('quantile_n1', h_quantile, dict(n=1), bounds='n=1, weights>=0, alpha in [0,1]'),
    H('quantile_n2', h_quantile, dict(n=2), bounds='n=2'),
    H('quantile_n3', h_quantile, dict(n=3), bounds='n=3'),
    H('quantile_n4', h_quantile, dict(n=4), bounds='n=4', tiers=('quick', 'thorough')),
    H('quantile_n5', h_quantile, dict(n=5), bounds='n=5', tiers=('thorough',)),
    H('quantile_fp_probe_below_one', h_quantile_fp_probe, dict(n=3, direction='below'), witness=False,
      bounds='IEEE probe: 3 doubles in [0.5,4] from a QF_FP query such that the float cumulative sum of the normalised weights '
             'ends below 1.0; real function at alpha in {1, 1-ulp, 0.5}; witness search, no universal claim'),
    H('quantile_fp_probe_above_one', h_quantile_fp_probe, dict(n=3, direction='above'), witness=False, tiers=('thorough',),
      bounds='IEEE probe: as above with the cumulative sum ending above 1.0'),
    H('quantile_noweights_n3', h_quantile, dict(n=3, with_weights=False), bounds='n=3, weights=None'),
    H('quantile_noweights_n4', h_quantile, dict(n=4, with_weights=False), bounds='n=4, weights=None', tiers=('thorough',)),
    H('quantile_monotone_n2', h_quantile_monotone, dict(n=2), bounds='n=2, two alphas'),
    H('quantile_monotone_n3', h_quantile_monotone, dict(n=3), bounds='n=3, two alphas'),
    H('quantile_monotone_n4', h_quantile_monotone, dict(n=4), bounds='n=4, two alphas', tiers=('thorough',)),
    H('quantile_scale_n3', h_quantile_scale, dict(n=3), bounds='n=3, c>0'),
    H('quantile_scale_n4', h_quantile_scale, dict(n=4), bounds='n=4, c>0', tiers=('thorough',)),
    H('wvar_n3_d1', h_wvar, dict(n=3, d=1), bounds='n=3,d=1'),
    H('wvar_n4_d2', h_wvar, dict(n=4, d=2), bounds='n=4,d=2'),
    H('wvar_n6_d2', h_wvar, dict(n=6, d=2), bounds='n=6,d=2', tiers=('thorough',)),
    H('wvar_noweights_n4_d2', h_wvar, dict(n=4, d=2, with_weights=False), bounds='n=4,d=2,weights=None'),
    H('ess_n3', h_ess, dict(n=3), bounds='n=3'),
    H('ess_n6', h_ess, dict(n=6), bounds='n=6', tiers=('thorough',)),
    H('normalize_rejects_n3', h_normalize_rejects, dict(n=3), bounds='n=3, arbitrary real weights'),
    H('gm_pdf_k2_d1_scalar', h_gm_pdf, dict(k=2, d=1, xform='scalar', covform='scalar'), bounds='k=2,d=1,scalar x'),
    H('gm_pdf_k2_d1_1d', h_gm_pdf, dict(k=2, d=1, xform='1d', covform='scalar'), bounds='k=2,d=1,x 1-D (2 points)'),
    H('gm_pdf_k2_d2_1d', h_gm_pdf, dict(k=2, d=2, xform='1d', covform='matrix'), bounds='k=2,d=2,x 1-D (one point)'),
    H('gm_pdf_k2_d2_2d', h_gm_pdf, dict(k=2, d=2, xform='2d', covform='matrix'), bounds='k=2,d=2,x 2-D (2 points)'),
    H('gm_pdf_k3_d2_2d_now', h_gm_pdf, dict(k=3, d=2, xform='2d', covform='scalar', with_weights=False),
      bounds='k=3,d=2,x 2-D, weights=None', tiers=('thorough',)),
    H('gm_rvs_k2_d1_s2', h_gm_rvs, dict(k=2, d=1, size=2, max_trials=3), bounds='k=2,d=1,size=2,<=3 trials'),
    H('gm_rvs_k2_d2_s2', h_gm_rvs, dict(k=2, d=2, size=2, max_trials=3), bounds='k=2,d=2,size=2,<=3 trials'),
    H('gm_rvs_k2_d2_s3', h_gm_rvs, dict(k=2, d=2, size=3, max_trials=3), bounds='k=2,d=2,size=3,<=3 trials',
      tiers=('thorough',)),
    H('gm_rvs_noconstraint', h_gm_rvs, dict(k=2, d=2, size=2, with_constraint=False), bounds='k=2,d=2,size=2'),
]

MANIFEST = {
    'level_text': 'Bounded symbolic execution of the real functions: for every sample/weight/alpha/mean/covariance value '
                  '(exact reals) within the size bounds each defining claim is an SMT validity query that came back unsat on '
                  'every path of an exhaustively explored decision tree. Universal inside the bounds, silent outside them.',
    'level_note': 'Exact real arithmetic stands in for IEEE doubles; scipy multivariate normal density is an uninterpreted '
                  'function; RNG draws are arbitrary values of the documented range; sizes n<=4 (quick) / n<=5..6 (thorough), '
                  'mixture k<=3, d<=2, rvs <=3 retry trials; z3 is trusted. One bit-precise probe (QF_FP query on cvc5/z3 for doubles whose normalised cumulative sum rounds below/above 1) exercises the quantile\'s float guard: a witness search, not a universal claim.',
}
