"""C01 Rejection ABC returns exactly the best simulated draws, row-consistent."""
from fractions import Fraction

import numpy as np

import elfi

from symx import core
from symx.core import And, Or, Not, Implies, Sum, If, close, count_true, INF
from symx.explore import H
from harness.abcworld import World

PROPERTY = 'C01'
EXPLANATION = ('elfi.Rejection(...).sample(n, threshold|quantile|n_sim) runs whole (set_objective, iterate, BatchHandler, native '
               'client, compile/load/execute, _init_samples_lazy, _merge_batch, _update_state_meta, '
               '_update_objective_n_batches, extract_result, Sample) on a real 4-node model whose operations hand out symbolic '
               'parameter / summary / discrepancy values per (batch,row); discrepancies are extended reals (finite or +inf, '
               'arbitrary ties); n_sim, quantile and threshold are symbolic.')
ASSUMPTIONS = [
    'node operations return arbitrary values: parameters and summaries finite reals, discrepancies finite or +inf (no NaN)',
    'budget >= n_samples (with fewer consumed draws than requested samples the statement has no referent)',
    'main claims: at least n_samples consumed admissible draws have discrepancy < +inf; the complement is the region of '
    'known finding C01/inf-tie-placeholder and is probed by separate harnesses',
    'np.empty returns arbitrary values (fresh unconstrained reals)',
    'the batch generator is the stub TagRS (operations of this world never draw from it)',
]
OUTSIDE = ['NaN discrepancies', 'more batches than the bound (Cut)', 'adaptive distance re-sort', 'IEEE-only ties',
           'multiprocessing clients (C04 covers schedules)']


def eqrow(a, b, nodes):
    return And(*[close(a[n], b[n]) for n in nodes])


def h_rejection(ctx, bs, n, mode, K, region='main', nested=0, max_parallel=1, with_pool=False, earlier=None, shapes=None):
    """region: 'main' (>= n finite admissible consumed draws assumed) | 'inf' (the complement: finding F1)."""
    # shapes: 'vector_summary' (summary rows of width 2), 'two_params' (second parameter u), 'd_column' (discrepancy (batch, 1))
    w = World(ctx, bs, max_batches=K, nested_d=nested, vector_summary=shapes == 'vector_summary',
              extra_param=shapes == 'two_params', d_column=shapes == 'd_column')
    kw = {}
    thr = None
    budget = None
    if mode == 'n_sim':
        n_sim = ctx.int('n_sim', n, K * bs)
        kw['n_sim'] = n_sim
        budget = n_sim
    elif mode == 'quantile':
        q = ctx.real('quantile', 0, 1, lo_open=True)
        kw['quantile'] = q
    elif mode == 'threshold':
        thr = ctx.xreal('threshold', specials=(INF,))
        kw['threshold'] = thr
    nodes = ('t', 's', 'd') + (('d0',) if nested else ()) + (('sv',) if shapes == 'vector_summary' else ()) + \
        (('u',) if shapes == 'two_params' else ())
    with w.env():
        pool = elfi.OutputPool(['t', 's', 'd']) if with_pool else None
        rej = elfi.Rejection(w.model['d'], batch_size=bs, seed=w.seed, output_names=['s'], pool=pool,
                             max_parallel_batches=max_parallel)
        w.watch(rej)
        if earlier:
            # the same sampler object has already finished another run (its state must not leak into this one)
            if earlier == 'n_sim':
                rej.sample(1, bar=False, n_sim=bs)
            elif earlier == 'threshold':
                rej.sample(1, bar=False, threshold=ctx.xreal('earlier_threshold', specials=(INF,)))
            w.consumed[:] = []
        sample = rej.sample(n, bar=False, **kw)
    cons = w.consumed
    rows = w.rows(cons, nodes)
    ctx.note('mode=%s consumed=%s' % (mode, cons))
    # -- which draws are admissible
    adm = [True if thr is None else (r[2]['d'] <= thr) for r in rows]
    fin = [not core._is_special(r[2]['d']) for r in rows]
    n_fin_adm = sum(1 for a, f in zip(adm, fin) if f and (a is True or a is not False))
    # admissibility of finite draws is decided on this path already (the code compared them), count symbolically
    n_ok = count_true([And(a, f) for a, f in zip(adm, fin)])
    finite_threshold = thr is not None and not core._is_special(thr)
    if finite_threshold and region == 'main':
        # draws with +inf are inadmissible here, so the finding's tie cannot occur; that a finished run has
        # consumed at least n admissible draws is then part of the claim, not an assumption
        ctx.claim('finished_only_with_n_admissible_draws', n_ok >= n)
    elif region == 'main':
        ctx.assume(n_ok >= n)
    else:
        ctx.assume(Not(n_ok >= n))
    # -- returned rows
    outs = sample.outputs
    ctx.claim('n_rows_each_output', all(len(outs[k]) == n for k in ('t', 's', 'd')))
    if nested:
        ret = [{'t': outs['t'][j], 's': outs['s'][j], 'd': outs['d'][j][-1], 'd0': outs['d'][j][0]} for j in range(n)]
    elif shapes == 'vector_summary':
        ctx.claim('summary_output_keeps_its_row_width', np.shape(outs['s']) == (n, 2))
        ret = [{'t': outs['t'][j], 's': outs['s'][j][0], 'sv': outs['s'][j][1], 'd': outs['d'][j]} for j in range(n)]
    elif shapes == 'two_params':
        ctx.claim('parameters_are_t_and_u', list(sample.parameter_names) == ['t', 'u'])
        ret = [{'t': outs['t'][j], 'u': outs['u'][j], 's': outs['s'][j], 'd': outs['d'][j]} for j in range(n)]
    elif shapes == 'd_column':
        ret = [{'t': outs['t'][j], 's': outs['s'][j], 'd': np.reshape(outs['d'][j], -1)[-1]} for j in range(n)]
    else:
        ret = [{'t': outs['t'][j], 's': outs['s'][j], 'd': outs['d'][j]} for j in range(n)]
    for j in range(n):
        ctx.output('ret_t%d' % j, ret[j]['t'])
        ctx.output('ret_d%d' % j, ret[j]['d'])
    # (1) every returned row is one consumed draw, simultaneously in all outputs; multiset inclusion
    for j in range(n):
        ctx.claim('row_%d_is_a_consumed_draw_in_all_outputs' % j,
                  Or(*[And(adm[k], eqrow(ret[j], rows[k][2], nodes)) for k in range(len(rows))]))
    for k in range(len(rows)):
        mult_ret = count_true([eqrow(ret[j], rows[k][2], nodes) for j in range(n)])
        mult_cons = count_true([eqrow(rows[k2][2], rows[k][2], nodes) for k2 in range(len(rows))])
        ctx.claim('no_draw_returned_more_often_than_consumed_%d' % k, mult_ret <= mult_cons)
    # (2) ascending
    for j in range(n - 1):
        ctx.claim('ascending_%d' % j, ret[j]['d'] <= ret[j + 1]['d'])
    # (3) the n smallest among admissible consumed draws (free choice among ties only)
    last = ret[n - 1]['d']
    smaller_cons = count_true([And(adm[k], rows[k][2]['d'] < last) for k in range(len(rows))])
    smaller_ret = count_true([ret[j]['d'] < last for j in range(n)])
    ctx.claim('all_strictly_better_draws_are_returned', smaller_cons == smaller_ret)
    if thr is not None:
        ctx.claim('returned_within_threshold', And(*[ret[j]['d'] <= thr for j in range(n)]))
    # (4) reported threshold
    rthr = sample.threshold
    if nested or shapes == 'd_column':
        rthr = np.reshape(rthr, -1)[-1]
    ctx.claim('threshold_is_largest_returned_discrepancy', close(rthr, last))
    # (5) counts
    ctx.claim('n_sim_is_batch_size_times_consumed', sample.n_sim == bs * len(cons))
    ctx.claim('n_batches_reported', sample.n_batches == len(cons))
    ctx.claim('consumed_in_index_order_once', cons == list(range(len(cons))))
    if mode == 'n_sim':
        # exactly ceil(n_sim / bs) batches
        nb = len(cons)
        ctx.claim('exactly_ceil_budget_over_bs_batches', And(nb * bs >= budget, (nb - 1) * bs < budget))
    if mode == 'quantile':
        nb = len(cons)
        # budget = ceil(n / q) : smallest integer B with B*q >= n
        B_hi = nb * bs          # budget <= nb*bs  <=> nb*bs*q >= n
        B_lo = (nb - 1) * bs    # budget >  (nb-1)*bs <=> (nb-1)*bs*q < n
        ctx.claim('exactly_ceil_of_ceil_n_over_q_over_bs_batches', And(B_hi * q >= n, B_lo * q < n))
    if with_pool:
        ctx.claim('pool_holds_consumed_batches',
                  all(sorted(pool.stores[k].keys()) == sorted(cons) for k in ('t', 's', 'd')))


def mk(name, **p):
    region = p.get('region', 'main')
    tiers = p.pop('tiers', ('quick', 'thorough'))
    b = 'batch_size=%d n_samples=%d mode=%s <=%d batches%s%s%s' % (
        p['bs'], p['n'], p['mode'], p['K'], ' nested distance' if p.get('nested') else '',
        (' max_parallel=%d' % p['max_parallel'] if p.get('max_parallel') else '') + (' shapes=%s' % p['shapes'] if p.get('shapes') else ''),
        '; second run on a sampler object that finished a %s run before' % p['earlier'] if p.get('earlier') else '')
    return H(name, h_rejection, p, tiers=tiers, bounds=b,
             finding='C01/inf-tie-placeholder' if region == 'inf' else None,
             finding_claims=('is_a_consumed_draw', 'returned_more_often', 'all_strictly_better'))


HARNESSES = [
    mk('nsim_bs1_n1', bs=1, n=1, mode='n_sim', K=3),
    mk('nsim_bs1_n2', bs=1, n=2, mode='n_sim', K=3),
    mk('nsim_bs2_n1', bs=2, n=1, mode='n_sim', K=2),
    mk('nsim_bs2_n2', bs=2, n=2, mode='n_sim', K=2),
    mk('nsim_bs2_n3', bs=2, n=3, mode='n_sim', K=2),
    mk('nsim_bs3_n2', bs=3, n=2, mode='n_sim', K=2, tiers=('thorough',)),
    mk('nsim_bs2_n2_K3', bs=2, n=2, mode='n_sim', K=3, tiers=('thorough',)),
    mk('nsim_bs2_n3_K3', bs=2, n=3, mode='n_sim', K=3, tiers=('thorough',)),
    mk('quantile_bs2_n1', bs=2, n=1, mode='quantile', K=2),
    mk('quantile_bs2_n2', bs=2, n=2, mode='quantile', K=2),
    mk('quantile_bs1_n2', bs=1, n=2, mode='quantile', K=3, tiers=('thorough',)),
    mk('threshold_bs1_n1', bs=1, n=1, mode='threshold', K=3),
    mk('threshold_bs2_n1', bs=2, n=1, mode='threshold', K=2),
    mk('threshold_bs2_n2', bs=2, n=2, mode='threshold', K=2),
    mk('threshold_bs2_n2_K3', bs=2, n=2, mode='threshold', K=3, tiers=('thorough',)),
    mk('threshold_bs1_n2_par2', bs=1, n=2, mode='threshold', K=4, max_parallel=2, tiers=('thorough',)),
    mk('threshold_bs2_n2_second_run', bs=2, n=2, mode='threshold', K=2, earlier='n_sim'),
    mk('threshold_bs1_n1_second_run_after_threshold', bs=1, n=1, mode='threshold', K=3, earlier='threshold'),
    mk('nsim_bs2_n2_second_run', bs=2, n=2, mode='n_sim', K=2, earlier='threshold', tiers=('thorough',)),
    mk('quantile_bs2_n1_second_run', bs=2, n=1, mode='quantile', K=2, earlier='n_sim', tiers=('thorough',)),
    mk('nsim_bs2_n2_pool', bs=2, n=2, mode='n_sim', K=2, with_pool=True),
    mk('nsim_bs2_n2_nested', bs=2, n=2, mode='n_sim', K=2, nested=1),
    mk('nsim_bs2_n2_vector_summary', bs=2, n=2, mode='n_sim', K=2, shapes='vector_summary'),
    mk('threshold_bs2_n1_two_params', bs=2, n=1, mode='threshold', K=2, shapes='two_params'),
    mk('quantile_bs2_n2_d_column', bs=2, n=2, mode='quantile', K=2, shapes='d_column'),
    # region of the known finding: fewer than n finite admissible draws among the consumed ones
    mk('inf_nsim_bs2_n2', bs=2, n=2, mode='n_sim', K=1, region='inf'),
    mk('inf_nsim_bs1_n2', bs=1, n=2, mode='n_sim', K=2, region='inf', tiers=('thorough',)),
]

MANIFEST = {
    'level_text': 'Bounded symbolic execution of the whole Rejection.sample call on the real code: for every assignment of '
                  'parameter/summary/discrepancy values (discrepancies finite or +inf, any ties), every n_sim / quantile / '
                  'threshold value and each listed (batch_size, n_samples, batch bound), row consistency, multiset inclusion, '
                  'ordering, best-n selection, reported threshold and simulation counts are SMT validity queries on every path '
                  'of the exhaustively explored decision tree.',
    'level_note': 'batch_size<=2 (3 thorough), n_samples<=3, <=2..3 consumed batches (4 in one threshold harness); exact reals + '
                  '+inf, no NaN; node operations uninterpreted (fresh values); native client; also a second run on a sampler object that finished another run; region with fewer than n finite '
                  'admissible draws is excluded from the main claim and reported as known finding C01/inf-tie-placeholder. '
                  'z3 trusted.',
}
