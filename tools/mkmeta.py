#!/usr/bin/env python3
"""mkmeta.py <seed dir name> <ID> <breaks> <needs> <confirmed> [round]: write seeded/<name>/meta.json (detected_by = pending)."""
import json
import sys
name, pid, breaks, needs, confirmed = sys.argv[1:6]
rnd = sys.argv[6] if len(sys.argv) > 6 else 'a later'
json.dump({"property": pid,
           "origin": "independent sub-agent, %s round (given only the property text, a note naming the earlier seed ideas for "
                     "this property, and a scratch worktree)" % rnd,
           "breaks": breaks, "needs": needs, "confirmed": confirmed, "detected_by": "pending"},
          open('/verif/seeded/%s/meta.json' % name, 'w'), indent=1)
