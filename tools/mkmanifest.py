#!/usr/bin/env python3
"""Regenerate /verif/MANIFEST.json from the harness modules present (harness/Cxx.py with MANIFEST dict)
and validate it.  Properties without a harness module are listed under not_applicable with the reason
given in NOT_YET below."""
import os, sys, json, importlib, re
HERE = os.path.dirname(os.path.dirname(os.path.abspath(__file__)))
sys.path[:0] = ['/repo', HERE]

NOT_YET = {}
for line in open(os.path.join(HERE, 'tools', 'not_applicable.txt')) if os.path.exists(os.path.join(HERE, 'tools', 'not_applicable.txt')) else []:
    line = line.strip()
    if line and not line.startswith('#'):
        k, v = line.split(None, 1)
        NOT_YET[k] = v

props = [json.loads(l) for l in open(os.path.join(HERE, 'properties.jsonl'))]
checks, na = [], []
for p in props:
    pid = p['id']
    hp = os.path.join(HERE, 'harness', pid + '.py')
    src = open(hp).read() if os.path.exists(hp) else ''
    m = re.search(r"^MANIFEST = (\{.*?^\})", src, re.S | re.M)
    if not m:
        na.append({'property_id': pid, 'reason': NOT_YET.get(pid, 'no solver-based harness has been built for this property yet; nothing is claimed')})
        continue
    info = eval(m.group(1))
    checks.append({
        'property_id': pid,
        'quick_cmd': './vcheck %s --tier quick' % pid,
        'thorough_cmd': './vcheck %s --tier thorough' % pid,
        'evidence_file': 'evidence/%s.json' % pid,
        'replay_cmd_template': './vcheck %s --replay {path}' % pid,
        'engine': 'symx',
        'level_claimed': {'category': 'other', 'text': info['level_text'], 'design_ref': info.get('design_ref', 'DESIGN.md section 6, ' + pid)},
        'level_note': info['level_note'],
        'technique': info.get('technique', 'bounded dynamic symbolic execution of the real elfi functions on z3; per-path SMT validity queries; counterexamples replayed on the real code'),
    })
man = {
    'version': 1,
    'setup_cmd': './vcheck --setup',
    'hooks': {'guard': 'ELFI_VERIF', 'enable': 'no source hooks: stubs are bound from outside by rebinding module globals of the imported /repo modules (ELFI_VERIF=1 is exported by ./vcheck but nothing in /repo reads it)',
              'baseline_off_cmd': 'cd /repo && /venv/bin/python -m pytest -ra -q -p no:cacheprovider --timeout=900 --continue-on-collection-errors',
              'source_commits': [], 'add_only': True},
    'engines': [{'name': 'symx', 'path': 'symx/', 'serves_properties': [c['property_id'] for c in checks],
                 'kind_free_text': 'replay-based dynamic symbolic executor for Python/numpy on the z3 Python API (proxies inside real numpy object arrays, path-exhaustive DFS split over 16 processes, fresh-solver validity query per claim, concrete replay of every counterexample)'}],
    'checks': checks,
    'not_applicable': na,
    'notes': 'Exit codes: 0 held on everything explored; 1 VIOLATION (replayed on the real code); 3 HARNESS-ERROR (engine problem, vacuity guard, or solver counterexample that does not reproduce) - never reported as a violation. INCONCLUSIVE lines name obligations the solver could not decide; they are counted in evidence (obligations > discharged).',
}
json.dump(man, open(os.path.join(HERE, 'MANIFEST.json'), 'w'), indent=1)
import jsonschema
jsonschema.validate(man, json.load(open('/root/.vp/MANIFEST.schema.json')))
print('MANIFEST.json: %d checks, %d not_applicable; valid' % (len(checks), len(na)))
for f in sorted(os.listdir(os.path.join(HERE, 'evidence'))):
    if f.endswith('.json'):
        try:
            jsonschema.validate(json.load(open(os.path.join(HERE, 'evidence', f))), json.load(open('/root/.vp/EVIDENCE.schema.json')))
        except Exception as e:
            print('EVIDENCE INVALID', f, str(e)[:300])
