#!/usr/bin/env python3
"""mkmut.py <ID> <name> <file relative to /repo> <old> <new> [count]: write mutants/<ID>/<name>.patch (unified diff)."""
import sys, os, difflib
pid, name, rel, old, new = sys.argv[1:6]
cnt = int(sys.argv[6]) if len(sys.argv) > 6 else 1
src = open(os.path.join('/repo', rel)).read()
assert src.count(old) >= 1, 'old text not found'
if src.count(old) > 1 and cnt == 1 and len(sys.argv) <= 6:
    print('warning: %d occurrences, replacing first' % src.count(old))
dst = src.replace(old, new, cnt)
d = ''.join(difflib.unified_diff(src.splitlines(True), dst.splitlines(True), 'a/' + rel, 'b/' + rel))
os.makedirs(os.path.join('/verif/mutants', pid), exist_ok=True)
open(os.path.join('/verif/mutants', pid, name + '.patch'), 'w').write(d)
print(d)
