#!/bin/bash
# verify_seed.sh <worktree> <ID> <name> [test files...]: confirm an agent's seeded change independently, then store it.
# 1. fresh scratch worktree of /repo HEAD: demo must exit 0; 2. apply patch: demo must exit 1;
# 3. given test files must give the same pass/fail set before and after; 4. copy to /verif/seeded/<name>/
set -u
WT=$1; PID=$2; NAME=$3; shift 3
S=/tmp/vs_$NAME
git -C /repo worktree remove --force $S 2>/dev/null; rm -rf $S
git -C /repo worktree add -q --detach $S HEAD || exit 9
mkdir -p $S/_seed; cp $WT/_seed/demo.py $WT/_seed/patch.diff $S/_seed/
cd $S
/venv/bin/python _seed/demo.py > /tmp/vs_$NAME.before.log 2>&1; B=$?
if [ $# -gt 0 ]; then /venv/bin/python -m pytest "$@" -q -p no:cacheprovider --timeout=900 2>&1 | grep -E "^(FAILED|ERROR)|passed|failed" | sort > /tmp/vs_$NAME.tests_before; fi
git apply _seed/patch.diff || { echo "PATCH DOES NOT APPLY"; exit 8; }
/venv/bin/python _seed/demo.py > /tmp/vs_$NAME.after.log 2>&1; A=$?
if [ $# -gt 0 ]; then /venv/bin/python -m pytest "$@" -q -p no:cacheprovider --timeout=900 2>&1 | grep -E "^(FAILED|ERROR)|passed|failed" | sort > /tmp/vs_$NAME.tests_after; fi
echo "demo exit before=$B after=$A"
tail -3 /tmp/vs_$NAME.after.log
if [ $# -gt 0 ]; then echo "tests before:"; tail -1 /tmp/vs_$NAME.tests_before; echo "tests after:"; tail -1 /tmp/vs_$NAME.tests_after; diff <(sed 's/ in [0-9.]*s.*//' /tmp/vs_$NAME.tests_before) <(sed 's/ in [0-9.]*s.*//' /tmp/vs_$NAME.tests_after) && echo "TESTS SAME"; fi
cd /; git -C /repo worktree remove --force $S
if [ $B -eq 0 ] && [ $A -ne 0 ]; then
  mkdir -p /verif/seeded/$NAME; cp $WT/_seed/patch.diff $WT/_seed/demo.py /verif/seeded/$NAME/; cp $WT/_seed/README.md /verif/seeded/$NAME/README.md 2>/dev/null
  echo "STORED /verif/seeded/$NAME"
fi
