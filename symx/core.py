"""symx core: proxies, path manager, claims.

Dynamic symbolic execution of unmodified Python/numpy code on z3.

* SymX    finite real number (z3 Real term).  IEEE specials are *Python floats*
          (inf, -inf, nan): an operation whose result may be special forks on the
          deciding condition, so on every path a value is either a finite real term
          or a concrete special ("forking extended reals").
* SymInt  integer (z3 Int term), hashable with a constant hash.
* SymBool truth value; bool(SymBool) asks the path manager.

A harness is a function h(ctx).  It is re-executed once per path (replay DFS).
The same function runs in *concrete* mode (ConcreteCtx) on ordinary floats for
counterexample replay, the reachability twin and shadow validation.
"""
import math
import time
import itertools
from fractions import Fraction

import z3
import numpy as _np

INF = float('inf')
NAN = float('nan')


class Cut(BaseException):
    """Path needs more than the stated bound (outside the claim)."""


class Infeasible(BaseException):
    """An assumption contradicts the path condition: path pruned."""


class Budget(BaseException):
    """Per-worker budget exhausted in the middle of a path."""


_CTX = None


def cur():
    return _CTX


def set_ctx(c):
    global _CTX
    _CTX = c


def symbolic_mode():
    return _CTX is not None and _CTX.symbolic


# --------------------------------------------------------------------------
# conversions

def _is_special(v):
    return isinstance(v, float) and (v != v or v in (INF, -INF))


def frac_of(v):
    """Exact rational meaning of a concrete Python/numpy number (decimal meaning for floats)."""
    if isinstance(v, bool):
        return Fraction(int(v))
    if isinstance(v, int):
        return Fraction(v)
    if isinstance(v, Fraction):
        return v
    if isinstance(v, (_np.integer,)):
        return Fraction(int(v))
    if isinstance(v, (float, _np.floating)):
        f = float(v)
        return Fraction(repr(f)) if abs(f) < 1e15 and abs(f) > 1e-15 or f == 0 else Fraction(f)
    raise TypeError('not a number: %r' % (v,))


def realval(v):
    f = frac_of(v)
    return z3.RealVal(str(f))


def _num_kind(o):
    if isinstance(o, (SymX, SymInt)):
        return 'sym'
    if isinstance(o, SymBool):
        return 'symbool'
    if isinstance(o, (bool, _np.bool_)):
        return 'bool'
    if isinstance(o, (int, float, Fraction, _np.integer, _np.floating)):
        return 'num'
    return None


def rterm(o):
    """z3 Real term of a finite numeric operand."""
    if isinstance(o, SymX):
        return o.t
    if isinstance(o, SymInt):
        return z3.ToReal(o.t)
    if isinstance(o, SymBool):
        return z3.If(o.t, z3.RealVal(1), z3.RealVal(0))
    return realval(o)


def _simp(t):
    return z3.simplify(t)


# --------------------------------------------------------------------------
# SymBool

class SymBool:
    __slots__ = ('t',)

    def __init__(self, t):
        self.t = t

    def __bool__(self):
        return _CTX.branch(self.t)

    def _lift(self, o):
        if isinstance(o, SymBool):
            return o.t
        if isinstance(o, (bool, _np.bool_)):
            return z3.BoolVal(bool(o))
        return None

    def __and__(self, o):
        t = self._lift(o)
        if t is None:
            return NotImplemented
        return mkbool(z3.And(self.t, t))

    __rand__ = __and__

    def __or__(self, o):
        t = self._lift(o)
        if t is None:
            return NotImplemented
        return mkbool(z3.Or(self.t, t))

    __ror__ = __or__

    def __invert__(self):
        return mkbool(z3.Not(self.t))

    def __xor__(self, o):
        t = self._lift(o)
        if t is None:
            return NotImplemented
        return mkbool(z3.Xor(self.t, t))

    __rxor__ = __xor__

    def __eq__(self, o):
        t = self._lift(o)
        if t is None:
            return NotImplemented
        return mkbool(self.t == t)

    def __ne__(self, o):
        t = self._lift(o)
        if t is None:
            return NotImplemented
        return mkbool(self.t != t)

    def __hash__(self):
        return 0

    # arithmetic on booleans (np.sum(mask), mask * x ...) -> 0/1 integer
    def _asint(self):
        return SymInt(z3.If(self.t, z3.IntVal(1), z3.IntVal(0)))

    def __add__(self, o):
        return self._asint() + o

    def __radd__(self, o):
        return o + self._asint()

    def __mul__(self, o):
        return self._asint() * o

    def __rmul__(self, o):
        return o * self._asint()

    def __sub__(self, o):
        return self._asint() - o

    def __rsub__(self, o):
        return o - self._asint()

    def __index__(self):
        return 1 if bool(self) else 0

    def __repr__(self):
        return 'SymBool(%s)' % (self.t,)


def mkbool(t):
    """Fold constants, else SymBool."""
    if z3.is_true(t):
        return True
    if z3.is_false(t):
        return False
    s = _simp(t)
    if z3.is_true(s):
        return True
    if z3.is_false(s):
        return False
    return SymBool(s)


def bterm(o):
    if isinstance(o, SymBool):
        return o.t
    if isinstance(o, z3.BoolRef):
        return o
    if isinstance(o, (bool, _np.bool_)):
        return z3.BoolVal(bool(o))
    raise TypeError('not a truth value: %r' % (o,))


# --------------------------------------------------------------------------
# SymX : finite real

def _special_cmp(op, a, b):
    """Comparison where at least one side is a concrete special float."""
    # a, b: SymX/SymInt (finite) or python numbers
    fa = a if not isinstance(a, (SymX, SymInt)) else None
    fb = b if not isinstance(b, (SymX, SymInt)) else None
    if (fa is not None and fa != fa) or (fb is not None and fb != fb):
        return op == 'ne'
    # one is +-inf, the other finite symbolic (or number)
    if fa is None:  # a finite symbolic, b = +-inf
        pos = fb > 0
        return {'lt': pos, 'le': pos, 'gt': not pos, 'ge': not pos, 'eq': False, 'ne': True}[op]
    pos = fa > 0  # a = +-inf, b finite symbolic
    return {'lt': not pos, 'le': not pos, 'gt': pos, 'ge': pos, 'eq': False, 'ne': True}[op]


class SymX:
    __slots__ = ('t',)

    def __init__(self, t):
        self.t = t

    # ---- helpers
    @staticmethod
    def _other(o):
        """-> ('fin', term) | ('special', float) | None"""
        if isinstance(o, SymX):
            return 'fin', o.t
        if isinstance(o, SymInt):
            return 'fin', z3.ToReal(o.t)
        if isinstance(o, SymBool):
            return 'fin', rterm(o)
        if isinstance(o, (bool, _np.bool_)):
            return 'fin', realval(int(o))
        if isinstance(o, (int, Fraction, _np.integer)):
            return 'fin', realval(o)
        if isinstance(o, (float, _np.floating)):
            f = float(o)
            if f != f or f in (INF, -INF):
                return 'special', f
            return 'fin', realval(f)
        return None

    def _sign(self):
        """Fork on the sign of self: returns -1, 0, 1."""
        if bool(mkbool(self.t > 0)):
            return 1
        if bool(mkbool(self.t < 0)):
            return -1
        return 0

    # ---- arithmetic
    def __add__(self, o):
        k = self._other(o)
        if k is None:
            return NotImplemented
        if k[0] == 'special':
            return k[1]
        return SymX(self.t + k[1])

    __radd__ = __add__

    def __sub__(self, o):
        k = self._other(o)
        if k is None:
            return NotImplemented
        if k[0] == 'special':
            return -k[1]
        return SymX(self.t - k[1])

    def __rsub__(self, o):
        k = self._other(o)
        if k is None:
            return NotImplemented
        if k[0] == 'special':
            return k[1]
        return SymX(k[1] - self.t)

    def __mul__(self, o):
        k = self._other(o)
        if k is None:
            return NotImplemented
        if k[0] == 'special':
            if k[1] != k[1]:
                return NAN
            s = self._sign()
            return NAN if s == 0 else s * k[1]
        return SymX(self.t * k[1])

    __rmul__ = __mul__

    def __truediv__(self, o):
        k = self._other(o)
        if k is None:
            return NotImplemented
        if k[0] == 'special':
            if k[1] != k[1]:
                return NAN
            return SymX(z3.RealVal(0))  # finite / inf = (+-)0
        return _div(self, SymX(k[1]))

    def __rtruediv__(self, o):
        k = self._other(o)
        if k is None:
            return NotImplemented
        if k[0] == 'special':
            if k[1] != k[1]:
                return NAN
            s = self._sign()
            # inf / 0 = inf (sign of zero unknown: treated as +0)
            return k[1] if s >= 0 else -k[1]
        return _div(SymX(k[1]), self)

    def __floordiv__(self, o):
        q = self / o
        if isinstance(q, SymX):
            return q.__floor__()
        return q

    def __mod__(self, o):
        k = self._other(o)
        if k is None:
            return NotImplemented
        if k[0] == 'special':
            return NAN
        q = (self / o)
        if not isinstance(q, SymX):
            return NAN
        return self - SymX(z3.ToReal(q.__floor__().t)) * SymX(k[1])

    def __neg__(self):
        return SymX(-self.t)

    def __pos__(self):
        return self

    def __abs__(self):
        return SymX(z3.If(self.t >= 0, self.t, -self.t))

    def __pow__(self, e):
        if isinstance(e, (SymX, SymInt)):
            s = _simp(rterm(e))
            if z3.is_rational_value(s):
                e = Fraction(s.numerator_as_long(), s.denominator_as_long())
            else:
                return _CTX.uf_pow(self, e)
        if isinstance(e, (_np.integer,)):
            e = int(e)
        if isinstance(e, (float, _np.floating, Fraction)):
            if float(e) == int(e):
                e = int(e)
        if isinstance(e, int):
            if e == 0:
                return SymX(z3.RealVal(1))
            if e < 0:
                return 1 / (self ** (-e))
            r = self.t
            for _ in range(e - 1):
                r = r * self.t
            return SymX(r)
        if float(e) == 0.5:
            return self.sqrt()
        if float(e) == -0.5:
            return 1 / self.sqrt()
        return _CTX.uf_pow(self, e)

    def __rpow__(self, b):
        # b ** self with b concrete
        if isinstance(b, (int, float)) and b > 0:
            return (SymX(realval(math.log(b))) * self).exp() if b != math.e else self.exp()
        return NotImplemented

    # ---- comparisons
    def _cmp(self, o, op):
        if isinstance(o, _np.ndarray):
            return NotImplemented
        k = self._other(o)
        if k is None:
            if op == 'eq':
                return False
            if op == 'ne':
                return True
            return NotImplemented
        if k[0] == 'special':
            return _special_cmp(op, self, k[1])
        a, b = self.t, k[1]
        t = {'lt': a < b, 'le': a <= b, 'gt': a > b, 'ge': a >= b, 'eq': a == b, 'ne': a != b}[op]
        return mkbool(t)

    def __lt__(self, o):
        return self._cmp(o, 'lt')

    def __le__(self, o):
        return self._cmp(o, 'le')

    def __gt__(self, o):
        return self._cmp(o, 'gt')

    def __ge__(self, o):
        return self._cmp(o, 'ge')

    def __eq__(self, o):
        return self._cmp(o, 'eq')

    def __ne__(self, o):
        return self._cmp(o, 'ne')

    def __hash__(self):
        return 0

    def __bool__(self):
        return bool(mkbool(self.t != 0))

    # ---- numpy unary ufunc hooks for object arrays
    def sqrt(self):
        neg = mkbool(self.t < 0)
        if neg is not False and getattr(_CTX, 'assume_nonzero_divisors', False):
            _CTX._fact(self.t >= 0)      # harness-level domain assumption, see _div
            return _CTX.uf_sqrt(self)
        if bool(neg):
            return NAN
        return _CTX.uf_sqrt(self)

    def exp(self):
        return _CTX.uf_exp(self)

    def log(self):
        if bool(mkbool(self.t > 0)):
            return _CTX.uf_log(self)
        if bool(mkbool(self.t == 0)):
            return -INF
        return NAN

    def log1p(self):
        return (self + 1).log()

    def square(self):
        return self * self

    def conjugate(self):
        return self

    def item(self):
        return self

    def __floor__(self):
        return _CTX.floor_of(self)

    def __ceil__(self):
        f = _CTX.floor_of(-self)
        return -f

    def __round__(self, n=None):
        if n is not None:
            raise TypeError('round(x, n) of a symbolic real is not modelled')
        return _CTX.round_of(self)

    def __float__(self):
        # C-level coercion.  The only legitimate one is %-formatting of a log/progress message (formatting and
        # logging are stubbed out): recognised by the calling frame executing a BINARY_OP (`'%.3f' % x`);
        # arithmetic never reaches __float__ because the proxy implements every operator.
        import sys as _sys
        import dis as _dis
        f = _sys._getframe(1)
        try:
            op = _dis.opname[f.f_code.co_code[f.f_lasti]]
        except Exception:
            op = ''
        if op == 'BINARY_OP':
            return 0.0
        raise TypeError('float() of a symbolic real (shadow `float` in the analysed module)')

    def __int__(self):
        raise TypeError('int() of a symbolic real (shadow `int` in the analysed module)')

    def __index__(self):
        raise TypeError('symbolic real used as an index')

    def __repr__(self):
        s = str(self.t)
        return 'SymX(%s)' % (s if len(s) < 80 else s[:77] + '...')

    __str__ = __repr__

    def __format__(self, spec):
        return token_for(self)

    # attributes numpy scalars have and elfi occasionally touches
    @property
    def real(self):
        return self

    @property
    def ndim(self):
        return 0

    @property
    def shape(self):
        return ()


TOKENS = []


def token_for(v):
    """Formatting a symbolic value into a string yields a token that the harness can map back to the term."""
    for i, t in enumerate(TOKENS):
        if t is v or (type(t) is type(v) and t.t.eq(v.t)):
            return '<<sym%d>>' % i
    TOKENS.append(v)
    return '<<sym%d>>' % (len(TOKENS) - 1)


def _div(a, b):
    """a / b for finite a, b (SymX) following numpy float semantics for b == 0."""
    bz = mkbool(b.t == 0)
    if bz is False:
        return SymX(a.t / b.t)
    if _CTX is not None and getattr(_CTX, 'assume_nonzero_divisors', False):
        # harness-level assumption "no division by zero on this run" (stated in the harness' assumptions):
        # recorded as a fact instead of a (possibly hard non-linear) feasibility question per division
        _CTX._fact(b.t != 0)
        return SymX(a.t / b.t)
    if not bool(bz):
        return SymX(a.t / b.t)
    # b == 0 on this path
    s = a._sign()
    if s == 0:
        return NAN
    return INF if s > 0 else -INF


# --------------------------------------------------------------------------
# SymInt

class SymInt:
    __slots__ = ('t',)

    def __init__(self, t):
        self.t = t

    @staticmethod
    def _ot(o):
        if isinstance(o, SymInt):
            return o.t
        if isinstance(o, SymBool):
            return z3.If(o.t, z3.IntVal(1), z3.IntVal(0))
        if isinstance(o, (bool, _np.bool_)):
            return z3.IntVal(int(o))
        if isinstance(o, (int, _np.integer)):
            return z3.IntVal(int(o))
        return None

    def _promote(self):
        return SymX(z3.ToReal(self.t))

    def astype(self, dtype, *a, **k):
        """numpy scalar cast: fixed-width integer types wrap modulo 2**bits (two's complement), floats promote."""
        dt = _np.dtype(dtype)
        if dt.kind == 'f':
            return self._promote()
        if dt.kind in 'iu':
            bits = 8 * dt.itemsize
            m = z3.IntVal(2 ** bits)
            if dt.kind == 'u':
                return SymInt(_simp(self.t % m))
            half = z3.IntVal(2 ** (bits - 1))
            return SymInt(_simp((self.t + half) % m - half))
        raise TypeError('astype(%s) of a symbolic integer is not modelled' % dt)

    def __add__(self, o):
        t = self._ot(o)
        if t is None:
            if isinstance(o, _np.ndarray):
                return NotImplemented
            return self._promote() + o
        return SymInt(self.t + t)

    __radd__ = __add__

    def __sub__(self, o):
        t = self._ot(o)
        if t is None:
            if isinstance(o, _np.ndarray):
                return NotImplemented
            return self._promote() - o
        return SymInt(self.t - t)

    def __rsub__(self, o):
        t = self._ot(o)
        if t is None:
            if isinstance(o, _np.ndarray):
                return NotImplemented
            return o - self._promote()
        return SymInt(t - self.t)

    def __mul__(self, o):
        t = self._ot(o)
        if t is None:
            if isinstance(o, _np.ndarray):
                return NotImplemented
            return self._promote() * o
        return SymInt(self.t * t)

    __rmul__ = __mul__

    def __truediv__(self, o):
        if isinstance(o, _np.ndarray):
            return NotImplemented
        return self._promote() / o

    def __rtruediv__(self, o):
        if isinstance(o, _np.ndarray):
            return NotImplemented
        return o / self._promote()

    def __floordiv__(self, o):
        t = self._ot(o)
        if t is None:
            return NotImplemented
        if isinstance(o, (int, _np.integer)) and int(o) > 0:
            return SymInt(self.t / t)  # z3 int div == floor for positive divisor
        if bool(mkbool(t > 0)):
            return SymInt(self.t / t)
        if bool(mkbool(t == 0)):
            raise ZeroDivisionError('integer division or modulo by zero')
        raise Cut('floor division by negative symbolic integer')

    def __mod__(self, o):
        t = self._ot(o)
        if t is None:
            return NotImplemented
        if isinstance(o, (int, _np.integer)) and int(o) > 0:
            return SymInt(self.t % t)
        if bool(mkbool(t > 0)):
            return SymInt(self.t % t)
        raise Cut('modulo by non-positive symbolic integer')

    def __neg__(self):
        return SymInt(-self.t)

    def __pos__(self):
        return self

    def __abs__(self):
        return SymInt(z3.If(self.t >= 0, self.t, -self.t))

    def __pow__(self, e):
        if isinstance(e, int) and e >= 0:
            r = z3.IntVal(1)
            for _ in range(e):
                r = r * self.t
            return SymInt(r)
        return self._promote() ** e

    def _cmp(self, o, op):
        if isinstance(o, _np.ndarray):
            return NotImplemented
        t = self._ot(o)
        if t is None:
            return getattr(self._promote(), '_cmp')(o, op)
        a, b = self.t, t
        r = {'lt': a < b, 'le': a <= b, 'gt': a > b, 'ge': a >= b, 'eq': a == b, 'ne': a != b}[op]
        return mkbool(r)

    def __lt__(self, o):
        return self._cmp(o, 'lt')

    def __le__(self, o):
        return self._cmp(o, 'le')

    def __gt__(self, o):
        return self._cmp(o, 'gt')

    def __ge__(self, o):
        return self._cmp(o, 'ge')

    def __eq__(self, o):
        return self._cmp(o, 'eq')

    def __ne__(self, o):
        return self._cmp(o, 'ne')

    def __hash__(self):
        return 0

    def __bool__(self):
        return bool(mkbool(self.t != 0))

    def __index__(self):
        return _CTX.concretize(self.t)

    def __int__(self):
        return self  # never reached through int() (C-level) but useful for shadows

    def __repr__(self):
        return 'SymInt(%s)' % (self.t,)

    def __format__(self, spec):
        return token_for(self)


# --------------------------------------------------------------------------
# logic helpers usable in both modes

def _lift_bool(o):
    if isinstance(o, SymBool):
        return o.t
    if isinstance(o, z3.BoolRef):
        return o
    return None


def And(*xs):
    xs = _flat(xs)
    if any((not isinstance(x, (SymBool, z3.BoolRef))) and not x for x in xs):
        return False
    ts = [_lift_bool(x) for x in xs if isinstance(x, (SymBool, z3.BoolRef))]
    if not ts:
        return True
    return mkbool(z3.And(*ts))


def Or(*xs):
    xs = _flat(xs)
    if any((not isinstance(x, (SymBool, z3.BoolRef))) and bool(x) for x in xs):
        return True
    ts = [_lift_bool(x) for x in xs if isinstance(x, (SymBool, z3.BoolRef))]
    if not ts:
        return False
    return mkbool(z3.Or(*ts))


def Not(x):
    t = _lift_bool(x)
    if t is None:
        return not x
    return mkbool(z3.Not(t))


def Implies(a, b):
    return Or(Not(a), b)


def Iff(a, b):
    return And(Implies(a, b), Implies(b, a))


def _flat(xs):
    out = []
    for x in xs:
        if isinstance(x, (list, tuple)):
            out.extend(_flat(x))
        elif isinstance(x, _np.ndarray):
            out.extend(_flat(list(x.ravel())))
        else:
            out.append(x)
    return out


def If(c, a, b):
    """Merge two numeric values without forking (only finite values)."""
    t = _lift_bool(c)
    if t is None:
        return a if c else b
    if isinstance(a, (SymInt, int)) and isinstance(b, (SymInt, int)) and not isinstance(a, bool):
        return SymInt(z3.If(t, SymInt._ot(a), SymInt._ot(b)))
    if isinstance(a, (SymBool, bool)) and isinstance(b, (SymBool, bool)):
        return mkbool(z3.If(t, bterm(a), bterm(b)))
    if _is_special(a) or _is_special(b):
        return a if bool(SymBool(t)) else b
    return SymX(z3.If(t, rterm(a), rterm(b)))


def Sum(xs):
    xs = list(xs)
    r = 0
    for x in xs:
        r = r + x
    return r


def count_true(xs):
    """Number of true elements as a (possibly symbolic) integer."""
    r = 0
    for x in xs:
        t = _lift_bool(x)
        if t is None:
            r = r + (1 if x else 0)
        else:
            r = r + SymInt(z3.If(t, z3.IntVal(1), z3.IntVal(0)))
    return r


def close(a, b, rel=1e-9, abs_=1e-12):
    """Equality: exact in symbolic mode, tolerance on concrete floats."""
    if isinstance(a, (SymX, SymInt, SymBool)) or isinstance(b, (SymX, SymInt, SymBool)):
        return a == b
    if isinstance(a, Fraction) or isinstance(b, Fraction):
        if isinstance(a, Fraction) and isinstance(b, Fraction):
            return a == b
    try:
        fa, fb = float(a), float(b)
    except TypeError:
        return a == b
    if fa != fa or fb != fb:
        return fa != fa and fb != fb
    if fa in (INF, -INF) or fb in (INF, -INF):
        return fa == fb
    return abs(fa - fb) <= max(abs_, rel * max(abs(fa), abs(fb)))


def is_sym(v):
    return isinstance(v, (SymX, SymInt, SymBool))


# --------------------------------------------------------------------------
# z3 model helpers

def val_to_py(v):
    """z3 numeral -> Fraction / int / bool."""
    if z3.is_int_value(v):
        return v.as_long()
    if z3.is_rational_value(v):
        return Fraction(v.numerator_as_long(), v.denominator_as_long())
    if z3.is_true(v):
        return True
    if z3.is_false(v):
        return False
    if z3.is_algebraic_value(v):
        a = v.approx(20)
        return Fraction(a.numerator_as_long(), a.denominator_as_long())
    raise ValueError('cannot convert %r' % (v,))


# --------------------------------------------------------------------------
# Entry of the decision trace

class Dec:
    __slots__ = ('d', 'alt', 'payload')

    def __init__(self, d, alt, payload=None):
        self.d = d
        self.alt = alt
        self.payload = payload

    def key(self):
        return (self.d, self.payload)


class _NotRational(Exception):
    pass


def _ratfun(t):
    """z3 real term built from + - * / numerals and constants -> (numerator, denominator) polynomial terms."""
    if z3.is_rational_value(t) or z3.is_int_value(t):
        return t, z3.RealVal(1)
    if z3.is_const(t):
        return t, z3.RealVal(1)
    k = t.decl().kind()
    ch = t.children()
    if k == z3.Z3_OP_ADD:
        n, d = _ratfun(ch[0])
        for c in ch[1:]:
            n2, d2 = _ratfun(c)
            if d.eq(d2):
                n = n + n2
            else:
                n, d = n * d2 + n2 * d, d * d2
        return n, d
    if k == z3.Z3_OP_SUB:
        n, d = _ratfun(ch[0])
        for c in ch[1:]:
            n2, d2 = _ratfun(c)
            if d.eq(d2):
                n = n - n2
            else:
                n, d = n * d2 - n2 * d, d * d2
        return n, d
    if k == z3.Z3_OP_UMINUS:
        n, d = _ratfun(ch[0])
        return -n, d
    if k == z3.Z3_OP_MUL:
        n, d = _ratfun(ch[0])
        for c in ch[1:]:
            n2, d2 = _ratfun(c)
            n, d = n * n2, d * d2
        return n, d
    if k == z3.Z3_OP_DIV:
        n, d = _ratfun(ch[0])
        n2, d2 = _ratfun(ch[1])
        return n * d2, d * n2
    if k == z3.Z3_OP_POWER and z3.is_int_value(ch[1]) or (k == z3.Z3_OP_POWER and z3.is_rational_value(ch[1]) and ch[1].denominator_as_long() == 1):
        e = ch[1].numerator_as_long() if z3.is_rational_value(ch[1]) else ch[1].as_long()
        n, d = _ratfun(ch[0])
        if e >= 0:
            rn, rd = z3.RealVal(1), z3.RealVal(1)
            for _ in range(e):
                rn, rd = rn * n, rd * d
            return rn, rd
    if k == z3.Z3_OP_TO_REAL:
        return t, z3.RealVal(1)
    if k == z3.Z3_OP_UNINTERPRETED:
        return t, z3.RealVal(1)        # application of an uninterpreted function: an atom
    raise _NotRational(str(t.decl()))


class SymCtx:
    """One symbolic exploration context (one process)."""
    symbolic = True

    def __init__(self, rlimit_branch=2_000_000, rlimit_claim=40_000_000, seed=0, claim_timeout_ms=60_000):
        self.rlimit_branch = rlimit_branch
        self.rlimit_claim = rlimit_claim
        self.claim_timeout_ms = claim_timeout_ms
        self.seed = seed
        self.solver = z3.Solver()
        self.solver.set('random_seed', seed)
        self.n_branch_queries = 0
        self.n_claim_queries = 0
        self.solver_s = 0.0
        self.deadline = None
        self.branch_timeout_ms = 3000
        self.fallback_timeout_ms = 20000
        self.n_fallback = 0
        self.ufs = {}
        self.reset_path([])

    # ---- per-path state
    def reset_path(self, prefix):
        self.prefix = prefix          # list of (d, payload)
        self.trace = []               # list of Dec
        self.pc = []                  # z3 Bool terms (decisions + assumptions)
        self.pending = []             # constraints not yet pushed into the solver
        self.model = None
        self.model_valid = False
        self.inputs = {}              # name -> z3 const
        self.input_kinds = {}
        self.outputs = {}
        self.claims = []              # (name, status, info)
        self.notes = []
        self.counter = itertools.count()
        self.uf_apps = {}             # kind -> list of (argterm, resultterm)
        self.unknown_branch = False
        self.solver.reset()
        self.solver.set('random_seed', self.seed)
        self.solver.set('rlimit', self.rlimit_branch)
        self.solver.set('timeout', self.branch_timeout_ms)
        self.cex = None
        self.tables = {}
        self.assume_nonzero_divisors = False
        del TOKENS[:]

    # ---- solver plumbing
    def _flush(self):
        if self.pending:
            self.solver.add(*self.pending)
            self.pending = []

    def _check(self, *extra):
        """Feasibility of pc (+extra).  Incremental core first (fast on linear conditions); the core can
        stall on non-linear real arithmetic, so it runs under a short time-out and a fresh solver
        (default tactic -> nlsat) is the fallback.  `unknown` is treated by callers as feasible."""
        self._flush()
        t0 = time.time()
        self.n_branch_queries += 1
        r = self.solver.check(*extra)
        self._last_model_solver = self.solver
        if r == z3.unknown:
            s = z3.Solver()
            s.set('random_seed', self.seed)
            s.set('timeout', self.fallback_timeout_ms)
            s.add(*self.pc)
            s.add(*extra)
            r = s.check()
            self._last_model_solver = s
            self.n_fallback += 1
        self.solver_s += time.time() - t0
        return r

    def _model(self):
        return self._last_model_solver.model()

    def _add(self, t):
        self.pc.append(t)
        self.pending.append(t)

    def _model_says(self, t):
        if not self.model_valid or self.model is None:
            return None
        try:
            v = self.model.eval(t, model_completion=True)
        except z3.Z3Exception:
            return None
        if z3.is_true(v):
            return True
        if z3.is_false(v):
            return False
        return None

    def _ensure_model(self):
        if self.model_valid:
            return
        r = self._check()
        if r == z3.sat:
            self.model = self._model()
            self.model_valid = True
        elif r == z3.unsat:
            raise Infeasible()
        else:
            self.model = None
            self.model_valid = False
            self.unknown_branch = True

    def branch(self, t, payload=None):
        """Decide the truth of Bool term t on this path."""
        if z3.is_true(t):
            return True
        if z3.is_false(t):
            return False
        i = len(self.trace)
        if i < len(self.prefix):
            d, pl = self.prefix[i]
            self.trace.append(Dec(d, False, pl))
            self._add(t if d else z3.Not(t))
            self.model_valid = False
            return d
        if self.deadline is not None and time.time() > self.deadline and False:
            raise Budget()
        if i == len(self.prefix) and not self.model_valid:
            self._ensure_model()
        ms = self._model_says(t)
        can_t = can_f = None
        if ms is True:
            can_t = True
        elif ms is False:
            can_f = True
        model_t = self.model if ms is True else None
        model_f = self.model if ms is False else None
        if can_t is None:
            r = self._check(t)
            if r == z3.sat:
                can_t = True
                model_t = self._model()
            elif r == z3.unsat:
                can_t = False
            else:
                can_t = True
                self.unknown_branch = True
        if can_f is None:
            nt = z3.Not(t)
            r = self._check(nt)
            if r == z3.sat:
                can_f = True
                model_f = self._model()
            elif r == z3.unsat:
                can_f = False
            else:
                can_f = True
                self.unknown_branch = True
        if can_t and can_f:
            self.trace.append(Dec(True, True, payload))
            self._add(t)
            self.model = model_t
            self.model_valid = model_t is not None
            return True
        if can_t:
            self.trace.append(Dec(True, False, payload))
            # implied by pc: no need to add
            return True
        if can_f:
            self.trace.append(Dec(False, False, payload))
            return False
        raise Infeasible()

    def concretize(self, t):
        """Fork over the feasible integer values of term t (value recorded as payload)."""
        s = _simp(t)
        if z3.is_int_value(s):
            return s.as_long()
        tried = []
        while True:
            i = len(self.trace)
            if i < len(self.prefix):
                v = self.prefix[i][1]
            else:
                self._flush()
                r = self._check(*[t != u for u in tried])
                if r != z3.sat:
                    raise Infeasible()
                v = self._model().eval(t, model_completion=True).as_long()
                self.model_valid = False
            if self.branch(t == v, payload=v):
                return v
            tried.append(v)
            if len(tried) > 64:
                raise Cut('concretize: more than 64 values')

    def assume(self, c):
        """Add an assumption; prune the path when it contradicts the path condition."""
        t = _lift_bool(c)
        if t is None:
            if not c:
                raise Infeasible()
            return
        if z3.is_true(t):
            return
        ms = self._model_says(t)
        self._add(t)
        if ms is True:
            return
        self.model_valid = False
        if len(self.trace) >= len(self.prefix):
            self._ensure_model()

    # ---- inputs
    def _fresh(self, base):
        return '%s!%d' % (base, next(self.counter))

    def real(self, name, lo=None, hi=None, lo_open=False, hi_open=False):
        c = z3.Real(name)
        self.inputs[name] = c
        self.input_kinds[name] = 'real'
        x = SymX(c)
        if lo is not None:
            self.assume(x > lo if lo_open else x >= lo)
        if hi is not None:
            self.assume(x < hi if hi_open else x <= hi)
        return x

    def xreal(self, name, specials=(INF,), lo=None, hi=None):
        """Extended real input: forks on kind; finite -> SymX, else the special float."""
        k = z3.Int(name + '#kind')
        self.inputs[name + '#kind'] = k
        self.input_kinds[name + '#kind'] = 'kind'
        for i, s in enumerate(specials):
            if self.branch(k == i + 1):
                return s
        self.assume(SymBool(k == 0))
        return self.real(name, lo, hi)

    def int(self, name, lo=None, hi=None):
        c = z3.Int(name)
        self.inputs[name] = c
        self.input_kinds[name] = 'int'
        x = SymInt(c)
        if lo is not None:
            self.assume(x >= lo)
        if hi is not None:
            self.assume(x <= hi)
        return x

    def bool(self, name):
        c = z3.Bool(name)
        self.inputs[name] = c
        self.input_kinds[name] = 'bool'
        return SymBool(c)

    def choice(self, name, n):
        """Solver-chosen concrete alternative in range(n) (forks)."""
        k = self.int(name, 0, n - 1)
        return self.concretize(k.t)

    def flag(self, name):
        return bool(self.bool(name))

    def array(self, vals, dtype=None):
        a = _np.empty(_np.shape(vals), dtype=object)
        flat = _flat([vals])
        a.ravel()[:] = flat if flat else []
        if len(flat):
            for i, v in enumerate(flat):
                a.ravel()[i] = v
        return a

    def fresh_real(self, base):
        return SymX(z3.Real(self._fresh(base)))

    def fresh_int(self, base):
        return SymInt(z3.Int(self._fresh(base)))

    # ---- uninterpreted functions
    def uf(self, name, nargs, sort='real'):
        key = (name, nargs, sort)
        f = self.ufs.get(key)
        if f is None:
            rs = {'real': z3.RealSort(), 'int': z3.IntSort(), 'bool': z3.BoolSort()}[sort]
            f = z3.Function(name, *([z3.RealSort()] * nargs + [rs]))
            self.ufs[key] = f
        return f

    def apply_uf(self, name, args, sort='real'):
        """Apply UF `name` to finite numeric args (specials are passed as tagged constants)."""
        f = self.uf(name, len(args), sort)
        ts = []
        for a in args:
            if _is_special(a):
                ts.append(z3.Real('SPECIAL_nan' if a != a else ('SPECIAL_pinf' if a > 0 else 'SPECIAL_ninf')))
            else:
                ts.append(rterm(a))
        r = f(*ts)
        self.uf_apps.setdefault(name, []).append((tuple(ts), r))
        if sort == 'real':
            return SymX(r)
        if sort == 'int':
            return SymInt(r)
        return mkbool(r)

    def _fact(self, t):
        """Axiom instance: added to the path condition without feasibility check."""
        if self.model_valid and self._model_says(t) is not True:
            self.model_valid = False
        self.pc.append(t)
        self.pending.append(t)

    def uf_exp(self, x):
        f = self.uf('EXP', 1)
        xt = _simp(x.t)
        r = f(xt)
        apps = self.uf_apps.setdefault('EXP', [])
        if not any(a.eq(xt) for a, _ in apps):
            self._fact(r > 0)
            self._fact((xt == 0) == (r == 1))
            self._fact((xt > 0) == (r > 1))
            for a, ra in apps:
                self._fact((a < xt) == (ra < r))
                self._fact((a == xt) == (ra == r))
            apps.append((xt, r))
            # EXP(LOG(y)) = y for LOG applications seen so far
            for a, ra in self.uf_apps.get('LOG', []):
                if ra.eq(xt):
                    self._fact(r == a)
        return SymX(r)

    def exp_arg(self, e):
        """The argument x of the EXP application e = EXP(x) (None if e is not one)."""
        if isinstance(e, SymX):
            for a, ra in self.uf_apps.get('EXP', []):
                if ra.eq(e.t):
                    return SymX(a)
        return None

    def cancel_explog(self, t, _inner=False):
        """Rewrite EXP(LOG(u)) -> u and LOG(EXP(u)) -> u inside the z3 term t (instances of the stated axioms)."""
        subs = []
        logs = self.uf_apps.get('LOG', [])
        exps = self.uf_apps.get('EXP', [])
        for a, r in exps:
            for la, lr in logs:
                if lr.eq(a):
                    subs.append((r, la))
        for a, r in logs:
            for ea, er in exps:
                if er.eq(a):
                    subs.append((r, ea))
        for _ in range(3):
            if not subs:
                break
            t = z3.substitute(t, *subs)
        # EXP(+-LOG(u) +- LOG(v) ...) -> the rational function u^{+-1} v^{+-1} ... (log(a) - log(b) = log(a/b), all LOG
        # applications live on their x > 0 branch)
        if not _inner:
            subs2 = []
            for a, r in exps:
                if any(r.eq(x) for x, _ in subs):
                    continue
                try:
                    subs2.append((r, rterm(self.exp_of(SymX(a), _inner=True))))
                except _NotRational:
                    pass
            if subs2:
                t = z3.substitute(t, *subs2)
        return t

    def exp_of(self, term, _inner=False):
        """For a term that is a sum of +-LOG(args) (and numerals n*LOG-free parts are not allowed), return the
        rational function P with term == LOG(P), using log(a)+log(b)=log(ab), log(a)-log(b)=log(a/b) (all LOG
        applications were created on their x > 0 branch).  EXP(y) occurring inside arguments stay as they are."""
        t = _simp(self.cancel_explog(rterm(term), _inner=True))
        logs = {str(self.cancel_explog(r, _inner=True)): self.cancel_explog(a, _inner=True) for a, r in self.uf_apps.get('LOG', [])}
        num, den = z3.RealVal(1), z3.RealVal(1)

        def walk(u, sign):
            nonlocal num, den
            if str(u) in logs and u.decl().name() == 'LOG':
                if sign > 0:
                    num = num * logs[str(u)]
                else:
                    den = den * logs[str(u)]
                return
            k = u.decl().kind()
            ch = u.children()
            if k == z3.Z3_OP_ADD:
                for c in ch:
                    walk(c, sign)
                return
            if k == z3.Z3_OP_SUB:
                walk(ch[0], sign)
                for c in ch[1:]:
                    walk(c, -sign)
                return
            if k == z3.Z3_OP_UMINUS:
                walk(ch[0], -sign)
                return
            if k == z3.Z3_OP_MUL and len(ch) == 2 and z3.is_rational_value(ch[0]):
                f = Fraction(ch[0].numerator_as_long(), ch[0].denominator_as_long())
                if f == -1:
                    walk(ch[1], -sign)
                    return
                if f.denominator == 1 and abs(f) <= 4:
                    for _ in range(abs(int(f))):
                        walk(ch[1], sign if f > 0 else -sign)
                    return
            if z3.is_rational_value(u) and u.numerator_as_long() == 0:
                return
            raise _NotRational('not a combination of logarithms: %s' % str(u)[:80])
        walk(t, 1)
        return SymX(num / den)

    def uf_log(self, x):
        f = self.uf('LOG', 1)
        xt = _simp(x.t)
        r = f(xt)
        apps = self.uf_apps.setdefault('LOG', [])
        if not any(a.eq(xt) for a, _ in apps):
            self._fact((xt == 1) == (r == 0))
            self._fact((xt > 1) == (r > 0))
            for a, ra in apps:
                self._fact((a < xt) == (ra < r))
                self._fact((a == xt) == (ra == r))
            apps.append((xt, r))
            # LOG(EXP(y)) = y for EXP applications seen so far
            for a, ra in self.uf_apps.get('EXP', []):
                if ra.eq(xt):
                    self._fact(r == a)
        return SymX(r)

    def uf_sqrt(self, x):
        """sqrt(x) for x >= 0: a constant r with r >= 0 and r*r = x (one per syntactically distinct argument).
        No function symbol is used, so queries stay in pure non-linear real arithmetic (nlsat); congruence
        for semantically equal arguments follows from uniqueness of the non-negative root."""
        xt = _simp(x.t)
        apps = self.uf_apps.setdefault('SQRT', [])
        for a, ra in apps:
            if a.eq(xt):
                return SymX(ra)
        if z3.is_rational_value(xt):
            f = Fraction(xt.numerator_as_long(), xt.denominator_as_long())
            rn, rd = math.isqrt(f.numerator), math.isqrt(f.denominator)
            if rn * rn == f.numerator and rd * rd == f.denominator:
                return SymX(z3.RealVal(str(Fraction(rn, rd))))
        r = z3.Real('sqrt!%d' % len(apps))
        self._fact(z3.And(r >= 0, r * r == xt))
        apps.append((xt, r))
        return SymX(r)

    def uf_pow(self, b, e):
        return self.apply_uf('POW', [b, e])

    def floor_of(self, x):
        k = z3.Int(self._fresh('floor'))
        self._fact(z3.And(z3.ToReal(k) <= x.t, x.t < z3.ToReal(k) + 1))
        return SymInt(k)

    def round_of(self, x):
        """Python's round(): the nearest integer, ties to the even one."""
        k = z3.Int(self._fresh('round'))
        kr = z3.ToReal(k)
        self._fact(z3.And(kr - z3.RealVal('1/2') <= x.t, x.t <= kr + z3.RealVal('1/2')))
        self._fact(z3.Implies(z3.Or(x.t == kr - z3.RealVal('1/2'), x.t == kr + z3.RealVal('1/2')), k % 2 == 0))
        return SymInt(k)

    # ---- outputs and claims
    def output(self, name, v):
        self.outputs[name] = v

    def note(self, s):
        self.notes.append(s)

    def _claim_abstract(self, name, t, abstract, hyps):
        """Try to discharge t after replacing the given sub-terms by fresh reals (generalisation): the
        query contains only the hypotheses, not the path condition, so an identity that is polynomial in the
        abstracted terms is decided without the solver having to look inside them.  unsat => holds (sound:
        the instance follows from the generalisation, and the hypotheses are separately claimed under the pc).
        Returns (True, None) if discharged, else (False, model hints {orig term: value})."""
        subs = []
        seen = []
        for a in abstract:
            at = rterm(a) if not isinstance(a, z3.ExprRef) else a
            if any(at.eq(x) for x in seen) or z3.is_rational_value(at):
                continue
            seen.append(at)
            subs.append((at, z3.Real('abs!%d' % len(subs))))
        hy = [_lift_bool(h) for h in hyps]
        for k, h in enumerate(hy):
            if h is not None:
                self.claim('%s#hyp%d' % (name, k), SymBool(h))
        hy = [z3.substitute(h, *subs) for h in hy if h is not None]
        ta = z3.substitute(t, *subs)
        s = z3.Solver()
        s.set('random_seed', self.seed)
        s.set('timeout', self.claim_timeout_ms)
        s.add(*hy)
        s.add(z3.Not(ta))
        t0 = time.time()
        self.n_claim_queries += 1
        r = s.check()
        self.solver_s += time.time() - t0
        if r == z3.unsat:
            return True, None
        hints = {}
        if r == z3.sat:
            m = s.model()
            for at, fv in subs:
                try:
                    hints[at] = m.eval(fv, model_completion=True)
                except Exception:
                    pass
            # also pin the remaining free constants of the generalised query to its model
            fresh = set(str(fv) for _, fv in subs)
            try:
                from z3 import z3util
                for v in z3util.get_vars(ta):
                    if str(v) not in fresh:
                        hints[v] = m.eval(v, model_completion=True)
            except Exception:
                pass
        return False, hints

    def claim(self, name, c, abstract=None, hyps=()):
        """Discharge `c` under the path condition on a fresh solver."""
        if isinstance(c, (list, tuple)):
            c = And(*c)
        t = _lift_bool(c)
        hints = None
        if t is not None and abstract:
            ok, hints = self._claim_abstract(name, t, abstract, hyps)
            if ok:
                self.claims.append((name, 'unsat', None))
                return True
        if t is None:
            if c:
                self.claims.append((name, 'folded', None))
                return True
            # constant false: counterexample = any model of the pc (if the pc is satisfiable at all)
            self.model_valid = False
            self._ensure_model()   # raises Infeasible when the path is dead
            if not self.model_valid:
                self.claims.append((name, 'unknown', None))
                return None
            self.claims.append((name, 'sat', None))
            if self.cex is None:
                m = self.model
                # prefer pairwise distinct, non-zero real inputs (see claim()): replays more robustly
                reals = [c for n_, c in self.inputs.items() if self.input_kinds.get(n_) == 'real']
                if 1 < len(reals) <= 40:
                    s2 = z3.Solver()
                    s2.set('timeout', 5000)
                    s2.add(*self.pc)
                    s2.add(z3.Distinct(*reals))
                    s2.add(*[c != 0 for c in reals])
                    if s2.check() == z3.sat:
                        m = s2.model()
                self.cex = (name, self._extract(m))
            return False
        s = z3.Solver()
        s.set('random_seed', self.seed)
        if self.rlimit_claim:
            s.set('rlimit', self.rlimit_claim)
        s.set('timeout', self.claim_timeout_ms)
        s.add(*self.pc)
        s.add(z3.Not(t))
        t0 = time.time()
        self.n_claim_queries += 1
        r = z3.unknown
        if hints:
            # the generalised query was falsifiable: look for a real counterexample near its model first
            s.push()
            s.add(*[at == v for at, v in hints.items()])
            r = s.check()
            if r != z3.sat:
                s.pop()
                r = z3.unknown
        if r == z3.unknown:
            r = s.check()
        if r == z3.unknown:
            # undecided: look for a counterexample at "generic position" values of the real inputs (the query
            # becomes ground / linear); a hit is a genuine model of pc and not(claim), a miss leaves `unknown`
            reals = [c for n_, c in self.inputs.items() if self.input_kinds.get(n_) == 'real']
            for scale in (1, 7, 3):
                s.push()
                s.add(*[c == z3.RealVal(str(Fraction((i * 37) % 11 * scale + i + 1, 1 + (i % 3)))) for i, c in enumerate(reals)])
                r2 = s.check()
                if r2 == z3.sat:
                    r = z3.sat
                    break
                s.pop()
        dt = time.time() - t0
        self.solver_s += dt
        if r == z3.unsat:
            self.claims.append((name, 'unsat', dt))
            return True
        if r == z3.sat:
            self.claims.append((name, 'sat', dt))
            if self.cex is None:
                m = s.model()
                # prefer a counterexample with pairwise distinct, non-zero real inputs: it replays more robustly
                reals = [c for n_, c in self.inputs.items() if self.input_kinds.get(n_) == 'real']
                if 1 < len(reals) <= 40:
                    s.push()
                    s.set('timeout', 5000)
                    s.add(z3.Distinct(*reals))
                    s.add(*[c != 0 for c in reals])
                    if s.check() == z3.sat:
                        m = s.model()
                    s.pop()
                self.cex = (name, self._extract(m))
            return False
        self.claims.append((name, 'unknown', dt))
        return None

    def _extract(self, m):
        out = {}
        if m is None:
            return out
        for n, c in self.inputs.items():
            try:
                out[n] = val_to_py(m.eval(c, model_completion=True))
            except Exception:
                out[n] = None
        # UF tables
        tabs = {}
        for name, apps in self.uf_apps.items():
            rows = []
            for args, r in apps:
                try:
                    rows.append(([val_to_py(m.eval(a, model_completion=True)) for a in args]
                                 if isinstance(args, tuple) else [val_to_py(m.eval(args, model_completion=True))],
                                 val_to_py(m.eval(r, model_completion=True))))
                except Exception:
                    pass
            tabs[name] = rows
        out['#uf'] = tabs
        return out

    def sqrt_arg(self, r):
        """The term whose non-negative square root the constant r was introduced for (r*r if r is none)."""
        if isinstance(r, SymX):
            for a, ra in self.uf_apps.get('SQRT', []):
                if ra.eq(r.t):
                    return SymX(a)
        return r * r

    def claim_poly(self, name, lhs, rhs):
        """lhs == rhs as an identity of rational functions: both sides are brought to numerator/denominator form,
        cross-multiplied (denominators are non-zero by the run's stated domain assumption) and the difference is
        expanded by z3's sum-of-monomials normaliser; the identically-zero polynomial decides it.  Falls back to
        an ordinary solver query when the normal form is not 0 (then a counterexample is searched)."""
        t0 = time.time()
        try:
            nl, dl = _ratfun(_simp(self.cancel_explog(rterm(lhs))))
            nr, dr = _ratfun(_simp(self.cancel_explog(rterm(rhs))))
            d = z3.simplify(nl * dr - nr * dl, som=True, som_blowup=10000000)
            self.n_claim_queries += 1
            for _ in range(4):
                if z3.is_rational_value(d) and d.numerator_as_long() == 0:
                    self.claims.append((name, 'unsat', round(time.time() - t0, 4)))
                    self.solver_s += time.time() - t0
                    return True
                d2 = self._reduce_sqrt(d)
                if d2 is None:
                    break
                d = d2
        except _NotRational:
            pass
        return self.claim(name, SymX(rterm(lhs)) == SymX(rterm(rhs)))

    def _reduce_sqrt(self, d):
        """Rewrite the sum-of-monomials term d with r*r -> a for every square-root constant r = sqrt(a) of this path
        (the only fact used is r*r = a, which holds by construction of r); returns the re-normalised numerator, or
        None when nothing could be rewritten."""
        roots = self.uf_apps.get('SQRT', [])
        if not roots:
            return None
        changed = [False]

        def mono(t):
            facs, todo = [], [t]
            while todo:
                f = todo.pop()
                if z3.is_app(f) and f.decl().kind() == z3.Z3_OP_MUL:
                    todo.extend(f.children())
                else:
                    facs.append(f)
            cnt = [0] * len(roots)
            rest = []
            for f in facs:
                base, e = f, 1
                if z3.is_app(f) and f.decl().kind() == z3.Z3_OP_POWER and z3.is_rational_value(f.children()[1]) and \
                        f.children()[1].denominator_as_long() == 1 and f.children()[1].numerator_as_long() >= 0:
                    base, e = f.children()[0], f.children()[1].numerator_as_long()
                for i, (a, ra) in enumerate(roots):
                    if ra.eq(base):
                        cnt[i] += e
                        break
                else:
                    rest.append(f)
            out = z3.RealVal(1)
            for f in rest:
                out = out * f
            for i, (a, ra) in enumerate(roots):
                if cnt[i] >= 2:
                    changed[0] = True
                for _ in range(cnt[i] // 2):
                    out = out * a
                if cnt[i] % 2:
                    out = out * ra
            return out
        terms = d.children() if (z3.is_app(d) and d.decl().kind() == z3.Z3_OP_ADD) else [d]
        acc = None
        for t in terms:
            m_ = mono(t)
            acc = m_ if acc is None else acc + m_
        if not changed[0]:
            return None
        n, _den = _ratfun(_simp(acc))
        return z3.simplify(n, som=True, som_blowup=10000000)

    def path_model(self, noninteger=False):
        """A model of the current path condition (for shadow validation)."""
        s = z3.Solver()
        s.set('random_seed', self.seed)
        s.set('timeout', 10000)
        s.add(*self.pc)
        # first try a "generic position" assignment of the real inputs (turns non-linear conditions into ground ones)
        reals = [c for n_, c in self.inputs.items() if self.input_kinds.get(n_) == 'real']
        ints = [c for n_, c in self.inputs.items() if self.input_kinds.get(n_) == 'int'] if noninteger else []
        attempts = [(1, 0, False, True), (7, 0, False, True)]
        if noninteger:
            # first choices: non-integer reals and integer inputs away from 0/1, so that casts / truncations in the real
            # code are visible to the twin (reals + integers, integers only, reals only)
            attempts = [(1, Fraction(1, 13), True, True), (1, 0, True, False), (1, Fraction(1, 13), False, True)] + attempts
        for scale, off, pin_ints, pin_reals in attempts:
            s.push()
            if pin_ints and ints:
                # greedily, each integer input on its own (choice variables have small ranges and stay free)
                for i, c in enumerate(ints):
                    s.push()
                    s.add(c == 3 + 2 * i)
                    if s.check() != z3.sat:
                        s.pop()
                    else:
                        s.pop()
                        s.add(c == 3 + 2 * i)
            if pin_reals:
                s.add(*[c == z3.RealVal(str(Fraction((i * 37) % 11 * scale + i + 1, 1 + (i % 3)) + off)) for i, c in enumerate(reals)])
            if s.check() == z3.sat:
                m = s.model()
                return self._extract(m), m
            s.pop()
        if s.check() != z3.sat:
            return None
        return self._extract(s.model()), s.model()

    # convenience in harnesses
    And = staticmethod(And)
    Or = staticmethod(Or)
    Not = staticmethod(Not)
    Implies = staticmethod(Implies)
    If = staticmethod(If)
    close = staticmethod(close)


# --------------------------------------------------------------------------
# concrete twin

class ClaimFailed(Exception):
    pass


class ConcreteCtx:
    """Runs the same harness on ordinary Python floats taken from a model."""
    symbolic = False

    def __init__(self, values, exact=False):
        self.values = dict(values)
        self.tables = values.get('#uf', {}) if isinstance(values, dict) else {}
        self.exact = exact
        self.claims = []
        self.outputs = {}
        self.notes = []
        self.counter = itertools.count()
        self.missing = []

    def _get(self, name, default=0):
        if name not in self.values or self.values[name] is None:
            self.missing.append(name)
            return default
        return self.values[name]

    def real(self, name, lo=None, hi=None, lo_open=False, hi_open=False):
        v = self._get(name, lo if lo is not None else (hi if hi is not None else 0))
        return Fraction(v) if self.exact else float(v)

    def xreal(self, name, specials=(INF,), lo=None, hi=None):
        k = self._get(name + '#kind', 0)
        if k and 1 <= k <= len(specials):
            return specials[k - 1]
        return self.real(name, lo, hi)

    def int(self, name, lo=None, hi=None):
        return int(self._get(name, lo if lo is not None else 0))

    def bool(self, name):
        return bool(self._get(name, False))

    def choice(self, name, n):
        return int(self._get(name, 0))

    def flag(self, name):
        return self.bool(name)

    def array(self, vals, dtype=None):
        if self.exact:
            a = _np.empty(_np.shape(vals), dtype=object)
            for i, v in enumerate(_flat([vals])):
                a.ravel()[i] = v
            return a
        return _np.array(vals, dtype=dtype or float)

    def assume(self, c):
        if not c:
            raise Infeasible()

    def branch(self, t):
        raise RuntimeError('symbolic branch in concrete mode')

    def uf_table(self, name, args, default=0.0):
        """Value of UF `name` at args from the counterexample model (nearest entry)."""
        rows = self.tables.get(name, [])
        best = None
        for a, r in rows:
            if len(a) != len(args):
                continue
            ok = True
            for x, y in zip(a, args):
                if _is_special(y):
                    ok = False
                    break
                if not close(float(x), float(y), 1e-7, 1e-9):
                    ok = False
                    break
            if ok:
                best = r
                break
        if best is None:
            return default
        return float(best)

    def apply_uf(self, name, args, sort='real'):
        impl = CONCRETE_UFS.get(name)
        if impl is not None:
            return impl(*args)
        rows = self.tables.get(name, [])
        if rows:
            v = self.uf_table(name, args, None)
            if v is not None:
                return int(v) if sort == 'int' else (bool(v) if sort == 'bool' else v)
        return default_uf(name, args, sort)

    def output(self, name, v):
        self.outputs[name] = v

    def note(self, s):
        self.notes.append(s)

    def claim_poly(self, name, lhs, rhs):
        return self.claim(name, close(lhs, rhs, 1e-6, 1e-9))

    def sqrt_arg(self, r):
        return r * r

    def exp_arg(self, e):
        return math.log(e) if e > 0 else -INF

    def exp_of(self, term):
        return math.exp(term)

    def uf_exp(self, x):
        return math.exp(x)

    def uf_log(self, x):
        return math.log(x)

    def claim(self, name, c, abstract=None, hyps=()):
        if isinstance(c, (list, tuple)):
            c = all(bool(x) for x in _flat([c]))
        ok = bool(c)
        self.claims.append((name, 'ok' if ok else 'FAILED', None))
        return ok

    def fresh_real(self, base):
        return 0.0

    And = staticmethod(And)
    Or = staticmethod(Or)
    Not = staticmethod(Not)
    Implies = staticmethod(Implies)
    If = staticmethod(If)
    close = staticmethod(close)


CONCRETE_UFS = {
    'EXP': lambda x: math.exp(x) if x < 700 else INF,
    'LOG': lambda x: math.log(x),
    'SQRT': lambda x: math.sqrt(x),
}


def default_uf(name, args, sort='real'):
    """Deterministic concrete interpretation of a user-operation UF: a smooth injective-ish mix."""
    h = sum(ord(c) * (i + 1) for i, c in enumerate(name)) % 97
    acc = 0.37 + h / 101.0
    for i, a in enumerate(args):
        a = float(a)
        if a != a:
            return NAN
        if a in (INF, -INF):
            return a
        acc = acc * 1.3 + (i + 1.7) * a + 0.11 * a * a
    if sort == 'int':
        return int(abs(acc) * 1000) % 1000003
    if sort == 'bool':
        return int(abs(acc) * 1000) % 2 == 0
    return acc
