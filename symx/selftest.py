"""selftest: run the quick checks against scratch copies of /repo/elfi with seeded breaking edits.

Sources of edits: /verif/mutants/<ID>/*.patch (small hand-written mutants) and
/verif/seeded/<name>/patch.diff (changes written by independent agents; meta.json names the property).
Each must give exit 1 (VIOLATION).  Nothing is written to /repo or to /verif/evidence.
"""
import os
import sys
import json
import glob
import shutil
import subprocess
import tempfile
import time

HERE = os.path.dirname(os.path.dirname(os.path.abspath(__file__)))
REPO = os.environ.get('VERIF_REPO', '/repo')


def collect(ids):
    items = []
    for d in sorted(glob.glob(os.path.join(HERE, 'mutants', '*'))):
        pid = os.path.basename(d)
        for p in sorted(glob.glob(os.path.join(d, '*.patch'))):
            items.append((pid, p, os.path.basename(p)))
    for d in sorted(glob.glob(os.path.join(HERE, 'seeded', '*'))):
        mp = os.path.join(d, 'meta.json')
        pp = os.path.join(d, 'patch.diff')
        if os.path.exists(mp) and os.path.exists(pp):
            with open(mp) as f:
                meta = json.load(f)
            items.append((meta['property'], pp, 'seeded/' + os.path.basename(d)))
    if ids:
        items = [it for it in items if it[0] in ids or it[2] in ids]
    return items


def run_one(pid, patch, label, tier='quick'):
    if '.thorough.' in os.path.basename(patch):
        tier = 'thorough'     # this change only manifests inside the deeper bounds
    tmp = tempfile.mkdtemp(prefix='symx_mut_')
    try:
        shutil.copytree(os.path.join(REPO, 'elfi'), os.path.join(tmp, 'elfi'),
                        ignore=shutil.ignore_patterns('__pycache__', '*.pyc', 'cpp'))
        r = subprocess.run(['patch', '-p1', '-s', '-d', tmp, '-i', patch], capture_output=True, text=True)
        if r.returncode != 0:
            return label, pid, 'PATCH-FAILED', r.stdout + r.stderr, 0
        env = dict(os.environ, VERIF_REPO=tmp)
        t0 = time.time()
        r = subprocess.run([os.path.join(HERE, 'vcheck'), pid, '--tier', tier, '--no-evidence'], capture_output=True,
                           text=True, env=env)
        dt = time.time() - t0
        out = r.stdout + r.stderr
        if r.returncode == 1 and 'VIOLATION property=%s' % pid in out:
            return label, pid, 'CAUGHT', out, dt
        return label, pid, 'MISSED(exit=%d)' % r.returncode, out, dt
    finally:
        shutil.rmtree(tmp, ignore_errors=True)


def main(ids, tier='quick'):
    items = collect(ids)
    bad = 0
    for pid, patch, label in items:
        label, pid, verdict, out, dt = run_one(pid, patch, label, tier)
        first = [l for l in out.splitlines() if l.startswith(('VIOLATION', 'HARNESS-ERROR'))][:1]
        print('%-8s %-50s %-16s %5.0fs %s' % (pid, label, verdict, dt, first[0][:150] if first else ''))
        sys.stdout.flush()
        if verdict != 'CAUGHT':
            bad += 1
            if os.environ.get('SELFTEST_VERBOSE'):
                print(out[-3000:])
    print('selftest: %d/%d caught' % (len(items) - bad, len(items)))
    return 0 if bad == 0 else 2
