"""Environment stubs: random generator, scipy.stats facade.  Each is part of the claim."""
import numpy as _np
import scipy.stats as _ss

from . import core
from .core import SymX, SymInt, SymBool, INF, NAN
from .npfacade import has_sym, objarray, _Sub


def _shape_of(size):
    if size is None:
        return ()
    if isinstance(size, (int, _np.integer)):
        return (int(size),)
    if isinstance(size, SymInt):
        return (size.__index__(),)
    return tuple(int(s) if not isinstance(s, SymInt) else s.__index__() for s in size)


class SymRandomState:
    """Nondeterministic generator: every draw is a fresh named input constrained by the method's range.

    Works in both modes: in concrete mode ctx.real()/ctx.int() return the value of the draw from the
    counterexample (or path) model, so the real code sees the very stream the solver chose.
    """
    _count = [0]

    def __init__(self, name='rs', log=None, symbolic_ints=False):
        self.symbolic_ints = symbolic_ints
        self.name = name
        self.k = 0
        self.log = log if log is not None else []

    def _nm(self, kind):
        n = '%s.%s%d' % (self.name, kind, self.k)
        self.k += 1
        return n

    def _arr(self, shape, mk):
        ctx = core.cur()
        if shape == ():
            return mk()
        n = int(_np.prod(shape))
        vals = [mk() for _ in range(n)]
        if ctx.symbolic and any(core.is_sym(v) for v in vals):
            a = _np.empty(n, dtype=object)
            for i, v in enumerate(vals):
                a[i] = v
        else:
            a = _np.array(vals)
        return a.reshape(shape)

    def _real(self, kind, lo=None, hi=None, hi_open=False):
        ctx = core.cur()
        v = ctx.real(self._nm(kind), lo, hi, hi_open=hi_open)
        self.log.append((self.name, kind, v))
        return v

    def _int(self, kind, lo, hi):
        ctx = core.cur()
        v = ctx.int(self._nm(kind), lo, hi)
        if ctx.symbolic and not self.symbolic_ints:
            v = ctx.concretize(v.t)   # fork per feasible value: numpy needs real ints to index with
        self.log.append((self.name, kind, v))
        return v

    def rand(self, *shape):
        return self._arr(tuple(shape), lambda: self._real('u', 0, 1, hi_open=True))

    def random_sample(self, size=None):
        return self._arr(_shape_of(size), lambda: self._real('u', 0, 1, hi_open=True))

    random = random_sample

    def randn(self, *shape):
        return self._arr(tuple(shape), lambda: self._real('z'))

    def standard_normal(self, size=None):
        return self._arr(_shape_of(size), lambda: self._real('z'))

    def normal(self, loc=0.0, scale=1.0, size=None):
        if size is None:
            size = _np.broadcast(_np.asarray(loc, dtype=object), _np.asarray(scale, dtype=object)).shape
        z = self._arr(_shape_of(size), lambda: self._real('z'))
        return loc + scale * z

    def uniform(self, low=0.0, high=1.0, size=None):
        if size is None:
            size = _np.broadcast(_np.asarray(low, dtype=object), _np.asarray(high, dtype=object)).shape
        u = self._arr(_shape_of(size), lambda: self._real('u', 0, 1, hi_open=True))
        return low + (high - low) * u

    def exponential(self, scale=1.0, size=None):
        e = self._arr(_shape_of(size), lambda: self._real('e', 0, None))
        return scale * e

    def randint(self, low, high=None, size=None, dtype=int):
        if high is None:
            low, high = 0, low
        return self._arr(_shape_of(size), lambda: self._int('i', low, high - 1))

    def choice(self, a, size=None, replace=True, p=None):
        n = a if isinstance(a, (int, _np.integer)) else len(a)
        ctx = core.cur()

        def one():
            i = self._int('c', 0, n - 1)
            if p is not None:
                # an index of zero probability is never drawn
                for j in range(n):
                    ctx.assume(core.Implies(p[j] == 0, core.Not(i == j)))
            return i
        r = self._arr(_shape_of(size), one)
        if isinstance(a, (int, _np.integer)):
            return r
        return _np.asarray(a)[r]

    def multivariate_normal(self, mean, cov, size=None):
        mean = _np.atleast_1d(objarray(mean) if has_sym(mean) else _np.asarray(mean))
        d = mean.shape[0]
        shape = _shape_of(size) + (d,)
        z = self._arr(shape, lambda: self._real('mvn'))
        # contract: finite values; only the shape is promised (distribution is outside the claim)
        return z

    def permutation(self, x):
        raise core.Cut('permutation not modelled')

    def get_state(self):
        ctx = core.cur()
        w = ctx.int('%s.state' % self.name, 0, 2 ** 32 - 1)
        return ('MT19937', [w], 624, 0, 0.0)

    def seed(self, s=None):
        raise core.Cut('reseeding a symbolic generator')


def _squeeze_output(out):
    out = _np.asarray(out) if not (isinstance(out, _np.ndarray)) else out
    out = out.squeeze()
    if out.ndim == 0:
        out = out[()]
    return out


class _MVN:
    """scipy.stats.multivariate_normal stand-in: density is the UF MVN(x..., mean..., cov...)."""

    def _args(self, x, mean, cov):
        mean = _np.atleast_1d(objarray(mean))
        d = mean.shape[0]
        cov = objarray(cov)
        x = objarray(x)
        # scipy's _process_quantiles
        if x.ndim == 0:
            x = x[_np.newaxis]
        elif x.ndim == 1:
            if d == 1:
                x = x[:, _np.newaxis]
            else:
                x = x[_np.newaxis, :]
        if x.shape[-1] != d:
            raise ValueError('The dimension of x (%d) does not match the mean (%d)' % (x.shape[-1], d))
        return x, mean, cov, d

    def _eval(self, name, x, mean, cov):
        ctx = core.cur()
        x, mean, cov, d = self._args(x, mean, cov)
        rows = x.reshape(-1, d)
        out = _np.empty(len(rows), dtype=object)
        covl = list(cov.reshape(-1))
        for i, r in enumerate(rows):
            out[i] = ctx.apply_uf('%s%d' % (name, d), list(r) + list(mean) + covl)
            if name == 'MVNPDF':
                ctx._fact(out[i].t > 0)   # a normal density is positive everywhere (underflow is outside the claim)
        out = out.reshape(x.shape[:-1])
        return _squeeze_output(out)

    def pdf(self, x, mean=None, cov=1, allow_singular=False):
        if not (core.symbolic_mode() and (has_sym(x) or has_sym(mean) or has_sym(cov))):
            return _ss.multivariate_normal.pdf(x, mean=mean, cov=cov, allow_singular=allow_singular)
        return self._eval('MVNPDF', x, mean, cov)

    def logpdf(self, x, mean=None, cov=1, allow_singular=False):
        if not (core.symbolic_mode() and (has_sym(x) or has_sym(mean) or has_sym(cov))):
            return _ss.multivariate_normal.logpdf(x, mean=mean, cov=cov, allow_singular=allow_singular)
        return self._eval('MVNLOGPDF', x, mean, cov)

    def rvs(self, mean=None, cov=1, size=1, random_state=None):
        if isinstance(random_state, SymRandomState):
            out = random_state.multivariate_normal(mean, cov, size)
            return _squeeze_output(out)
        return _ss.multivariate_normal.rvs(mean=mean, cov=cov, size=size, random_state=random_state)


class _Norm:
    """scipy.stats.norm: cdf/pdf are the UFs PHI / NPDF of the standardised argument, logcdf/logpdf their logarithms."""

    def _std(self, x, loc, scale):
        return (x - loc) / scale

    def _u(self, name, z, facts):
        ctx = core.cur()

        def one(v):
            if core._is_special(v):
                return getattr(_ss.norm, {'PHI': 'cdf', 'NPDF': 'pdf', 'LOGPHI': 'logcdf', 'LOGNPDF': 'logpdf'}[name])(v)
            r = ctx.apply_uf(name, [v])
            facts(r, v)
            return r
        if isinstance(z, _np.ndarray):
            out = _np.empty(z.shape, dtype=object)
            f = out.reshape(-1)
            for i, v in enumerate(z.reshape(-1)):
                f[i] = one(v)
            return out
        return one(z)

    def cdf(self, x, loc=0, scale=1):
        if not (core.symbolic_mode() and (has_sym(x) or has_sym(loc) or has_sym(scale))):
            return _ss.norm.cdf(x, loc, scale)
        ctx = core.cur()
        return self._u('PHI', self._std(x, loc, scale), lambda r, v: ctx._fact(core.z3.And(r.t > 0, r.t < 1)))

    def pdf(self, x, loc=0, scale=1):
        if not (core.symbolic_mode() and (has_sym(x) or has_sym(loc) or has_sym(scale))):
            return _ss.norm.pdf(x, loc, scale)
        ctx = core.cur()
        return self._u('NPDF', self._std(x, loc, scale), lambda r, v: ctx._fact(r.t > 0)) / scale

    def logcdf(self, x, loc=0, scale=1):
        if not (core.symbolic_mode() and (has_sym(x) or has_sym(loc) or has_sym(scale))):
            return _ss.norm.logcdf(x, loc, scale)
        ctx = core.cur()
        # consistent with cdf: the log of the same uninterpreted PHI(z) (0 < PHI < 1, hence < 0)
        c = self.cdf(x, loc, scale)
        if isinstance(c, _np.ndarray):
            out = _np.empty(c.shape, dtype=object)
            fo, fc = out.reshape(-1), c.reshape(-1)
            for i in range(len(fc)):
                fo[i] = ctx.uf_log(fc[i]) if core.is_sym(fc[i]) else _np.log(fc[i])
            return out
        return ctx.uf_log(c) if core.is_sym(c) else _np.log(c)

    def logpdf(self, x, loc=0, scale=1):
        if not (core.symbolic_mode() and (has_sym(x) or has_sym(loc) or has_sym(scale))):
            return _ss.norm.logpdf(x, loc, scale)
        ctx = core.cur()
        z = self._std(x, loc, scale)
        # consistent with pdf: the log of the same uninterpreted NPDF(z) > 0
        d = self._u('NPDF', z, lambda r, v: ctx._fact(r.t > 0))
        if isinstance(d, _np.ndarray):
            lg = _np.empty(d.shape, dtype=object)
            fo, fd = lg.reshape(-1), d.reshape(-1)
            for i in range(len(fd)):
                fo[i] = ctx.uf_log(fd[i]) if core.is_sym(fd[i]) else _np.log(fd[i])
        else:
            lg = ctx.uf_log(d) if core.is_sym(d) else _np.log(d)
        return lg - core.SymX(core.rterm(scale)).log() if has_sym(scale) else lg - float(_np.log(scale))


class SSFacade(_Sub):
    def __init__(self, extra=None):
        ov = {'multivariate_normal': _MVN(), 'norm': _Norm()}
        if extra:
            ov.update(extra)
        super().__init__(_ss, ov)


CONCRETE = {}


def _concrete_mvn(name):
    def f(*args):
        # args = x(d) + mean(d) + cov(1 or d*d)
        n = len(args)
        for d in range(1, 6):
            if n in (2 * d + 1, 2 * d + d * d):
                break
        x = _np.array(args[:d], dtype=float)
        m = _np.array(args[d:2 * d], dtype=float)
        c = _np.array(args[2 * d:], dtype=float)
        c = c.reshape(d, d) if c.size == d * d and d > 1 else (c[0] if c.size == 1 else c.reshape(d, d))
        fn = _ss.multivariate_normal.pdf if name == 'MVNPDF' else _ss.multivariate_normal.logpdf
        return float(fn(x, mean=m, cov=c))
    return f


for _d in range(1, 5):
    core.CONCRETE_UFS['MVNPDF%d' % _d] = _concrete_mvn('MVNPDF')
    core.CONCRETE_UFS['MVNLOGPDF%d' % _d] = _concrete_mvn('MVNLOGPDF')
core.CONCRETE_UFS['PHI'] = lambda z: float(_ss.norm.cdf(z))
core.CONCRETE_UFS['NPDF'] = lambda z: float(_ss.norm.pdf(z))
core.CONCRETE_UFS['LOGPHI'] = lambda z: float(_ss.norm.logcdf(z))
core.CONCRETE_UFS['LOGNPDF'] = lambda z: float(_ss.norm.logpdf(z))
