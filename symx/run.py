"""CLI: python -m symx.run <ID> [--tier quick|thorough] [--replay file] | selftest [...]"""
import os
import sys
import json
import time
import glob
import shutil
import argparse
import importlib
import subprocess
import tempfile

HERE = os.path.dirname(os.path.dirname(os.path.abspath(__file__)))

EXIT_OK, EXIT_VIOLATION, EXIT_HARNESS = 0, 1, 3


def load_findings():
    p = os.path.join(HERE, 'known_findings.json')
    if not os.path.exists(p):
        return []
    with open(p) as f:
        return json.load(f).get('findings', [])


def main(argv=None):
    ap = argparse.ArgumentParser()
    ap.add_argument('target')
    ap.add_argument('rest', nargs='*')
    ap.add_argument('--tier', default=os.environ.get('VERIF_TIER', 'quick'))
    ap.add_argument('--replay')
    ap.add_argument('--only', help='comma separated harness names')
    ap.add_argument('--workers', type=int, default=int(os.environ.get('VERIF_WORKERS', '0')) or None)
    ap.add_argument('--no-evidence', action='store_true')
    ap.add_argument('-v', action='store_true')
    a = ap.parse_args(argv)
    if a.target == 'selftest':
        from . import selftest
        return selftest.main(a.rest, tier=a.tier)
    seed = int(os.environ.get('VERIF_SEED', '0') or 0)
    pid = a.target
    if a.replay:
        return replay(pid, a.replay)
    return check(pid, a.tier, seed, a.only.split(',') if a.only else None, a.workers, a.v, not a.no_evidence)


def replay(pid, path):
    from . import explore as ex
    with open(path) as f:
        r = json.load(f)
    mod = importlib.import_module('harness.' + pid)
    h = [x for x in mod.HARNESSES if x.name == r['harness']][0]
    vals = ex.exact_unjson(r['values'])
    rec = ex.run_concrete(h, vals, exact=r.get('exact', False))
    print('replay %s harness=%s status=%s error=%s' % (pid, h.name, rec['status'], rec.get('error')))
    for n, s in rec['claims']:
        print('  claim %-40s %s' % (n, s))
    for n in rec.get('notes', []):
        print('  note', n)
    bad = rec['status'] == 'error' or any(s != 'ok' for _, s in rec['claims'])
    if bad:
        print('VIOLATION property=%s replay=%s' % (pid, path))
        return EXIT_VIOLATION
    print('replay does not reproduce a violation')
    return EXIT_OK


def reproduces(h, claim, values, symbolic_error=None):
    """Replay a counterexample on the unpatched code with concrete values."""
    from . import explore as ex
    modes = [False] + ([True] if h.exact else [])
    last = None
    for exact in modes:
        rec = ex.run_concrete(h, values, exact=exact)
        last = rec
        if claim == 'no_unexpected_exception':
            # the concrete run must fail with the same exception class as the symbolic path did
            same = symbolic_error is None or (rec.get('error') or '').split(':')[0] == symbolic_error.split(':')[0]
            if symbolic_error and any(t in symbolic_error for t in ("'SymX'", "'SymInt'", "'SymBool'", 'symbolic real')) \
                    and (rec.get('error') or '') != symbolic_error:
                same = False      # the symbolic path failed because of a proxy limitation, not because of the code
                # ... but the path's model is still a concrete input of the real code: if the property's claims fail
                # on it (ordinary floats, real numpy semantics, e.g. a cast the proxies cannot follow), that is a
                # reproduced violation found by the concrete twin of this path
                if rec['status'] == 'ok' and any(s_ != 'ok' for _, s_ in rec['claims']):
                    rec = dict(rec, notes=list(rec.get('notes', [])) + [
                        'symbolic path stopped at a proxy limitation (%s); violation shown by the concrete run of the path model'
                        % symbolic_error[:120]])
                    return True, rec, exact
            if rec['status'] == 'error' and same:
                return True, rec, exact
            continue
        if any(s != 'ok' for _, s in rec['claims']):
            return True, rec, exact
        if rec['status'] == 'error':
            return True, rec, exact
    return False, last, False


def check(pid, tier, seed, only, workers, verbose, write_evidence=True):
    from . import explore as ex
    import logging
    logging.disable(logging.WARNING)
    t0 = time.time()
    mod = importlib.import_module('harness.' + pid)
    hs = [h for h in mod.HARNESSES if tier in h.tiers and (not only or h.name in only)]
    findings = load_findings()
    listed = {f['key']: f for f in findings if f.get('property') == pid}
    os.makedirs(os.path.join(HERE, 'replays'), exist_ok=True)
    os.makedirs(os.path.join(HERE, 'evidence'), exist_ok=True)

    total = dict(paths=0, obligations=0, discharged=0, nontrivial=set(), evaluations=0, cuts=0, infeasible=0,
                 expected_exc=0, errors=0, unknown=0, branch_queries=0, claim_queries=0, solver_s=0.0)
    per_h = []
    samples = []
    functions = {}
    violations = []
    known_hits = []
    harness_errors = []
    inconclusive = []
    exhaustive_all = True
    wall_limit = getattr(mod, 'WALL_LIMIT', {}).get(tier, 900 if tier == 'quick' else 10800)

    aggs = ex.explore_many('harness.' + pid, hs, seed=seed, workers=workers,
                           n_witness=2 if tier == 'quick' else 6, wall_limit=wall_limit)
    for h in hs:
        agg = aggs[h.name]
        st = dict(name=h.name, bounds=h.bounds, paths=agg['paths'], exhaustive=agg['exhaustive'],
                  wall_s=round(agg['wall_s'], 2), finding_probe=h.finding)
        nob = ndis = 0
        by_status = {}
        cexes = []
        for rec in agg['records']:
            by_status[rec['status']] = by_status.get(rec['status'], 0) + 1
            for (n, s, dt) in rec['claims']:
                nob += 1
                total['evaluations'] += 1
                if s in ('unsat', 'folded'):
                    ndis += 1
                if s in ('unsat', 'sat', 'unknown'):
                    total['nontrivial'].add((h.name, rec['decisions'], n))
                if s == 'unknown':
                    total['unknown'] += 1
                    inconclusive.append('%s/%s' % (h.name, n))
            if rec.get('cex'):
                cexes.append(rec)
        st.update(obligations=nob, discharged=ndis, status_counts=by_status,
                  witnesses=len(agg['witnesses']), witness_ok=sum(1 for w in agg['witnesses'] if w['ok'] is True))
        total['paths'] += agg['paths']
        total['obligations'] += nob
        total['discharged'] += ndis
        total['cuts'] += by_status.get('cut', 0)
        total['infeasible'] += by_status.get('infeasible', 0)
        total['expected_exc'] += by_status.get('expected_exc', 0)
        total['errors'] += by_status.get('error', 0)
        for k in ('branch_queries', 'claim_queries', 'solver_s'):
            total[k] += agg['stats'][k]
        for f in agg['functions']:
            functions[f['function']] = f['sha256']
        if agg['engine_errors']:
            harness_errors.append('%s: engine error: %s' % (h.name, agg['engine_errors'][0][-600:]))
        if not agg['exhaustive']:
            exhaustive_all = False
            if not agg.get('stopped_on_cex'):
                inconclusive.append('%s/path-budget' % h.name)
        if by_status.get('timeout'):
            exhaustive_all = False
            inconclusive.append('%s/path-timeout(%d)' % (h.name, by_status['timeout']))
        # sample records
        for rec in agg['records'][:2]:
            samples.append({'harness': h.name, 'decisions': rec['decisions'], 'status': rec['status'],
                            'claims': [[n, s] for n, s, _ in rec['claims']][:12], 'notes': rec.get('notes', [])[:4]})
        for w in agg['witnesses'][:1]:
            samples.append({'harness': h.name, 'witness_inputs': w['inputs'], 'witness_ok': w['ok'],
                            'decisions': w['decisions']})
        bad_w = [w for w in agg['witnesses'] if w['ok'] is False]
        st['witness_unavailable'] = sum(1 for w in agg['witnesses'] if w['ok'] is None)
        for w in bad_w[:3]:
            print('WITNESS-MISMATCH property=%s harness=%s failed=%s status=%s error=%s inputs=%s' % (
                pid, h.name, w['failed'], w['status'], w['error'], json.dumps(w['inputs'])[:400]))
        st['witness_mismatch'] = len(bad_w)
        # vacuity: some path must reach a claim and have a concrete witness
        if h.witness and not cexes and nob > 0 and not any(w['ok'] for w in agg['witnesses']):
            if any(w['ok'] is False for w in agg['witnesses']) or not agg['witnesses']:
                harness_errors.append('%s: no concrete witness reaches the claims (vacuity guard)' % h.name)
            else:
                print('WITNESS-UNAVAILABLE property=%s harness=%s (the solver returned no model of a path condition; '
                      'reachability of the claims is not confirmed by a concrete run)' % (pid, h.name))
        if nob == 0 and not cexes:
            harness_errors.append('%s: no path reached a claim (vacuity guard); statuses=%s' % (h.name, by_status))
        # counterexamples: replay (a few distinct ones per claim name)
        seen_claims = {}
        confirmed = unconfirmed = 0
        for rec in cexes:
            cname, vals = rec['cex']
            if seen_claims.get(cname, 0) >= 3:
                continue
            seen_claims[cname] = seen_claims.get(cname, 0) + 1
            ok, crec, exact = reproduces(h, cname, vals, rec.get('error'))
            if ok:
                confirmed += 1
                fn = os.path.join(HERE, 'replays', '%s_%s_%s_%d.json' % (pid, h.name, cname, seen_claims[cname]))
                with open(fn, 'w') as f:
                    json.dump({'property': pid, 'harness': h.name, 'claim': cname, 'exact': exact,
                               'values': ex.exact_jsonable(vals),
                               'concrete': {'status': crec['status'], 'error': crec.get('error'),
                                            'claims': crec['claims'], 'notes': crec.get('notes', [])[:10]},
                               'path': rec['decisions']}, f, indent=1, default=str)
                item = dict(harness=h.name, claim=cname, replay=fn, key=h.finding,
                            error=rec.get('error') or crec.get('error'),
                            failed=[c for c, s in crec['claims'] if s != 'ok'],
                            inputs=ex.jsonable({k: v for k, v in vals.items() if k != '#uf'}))
                is_listed = h.finding and h.finding in listed and listed[h.finding].get('status') == 'finding'
                if is_listed and cname == 'no_unexpected_exception':
                    # an exception counts as the listed finding only if its class is the one recorded for it
                    errs = h.finding_errors or ()
                    is_listed = (item['error'] or '').split(':')[0] in errs
                elif is_listed and h.finding_claims is not None:
                    is_listed = any(sub in cname for sub in h.finding_claims)
                if is_listed:
                    known_hits.append(item)
                else:
                    violations.append(item)
            else:
                unconfirmed += 1
                if verbose:
                    print('unconfirmed cex', h.name, cname, rec.get('error'), crec.get('error'), crec['claims'][:5])
        if unconfirmed and not confirmed:
            r0 = cexes[0]
            harness_errors.append('%s: %d counterexample(s) from the solver did not reproduce on the real code '
                                  '(claim %s, path error %s, tb %s)' % (h.name, unconfirmed, r0['cex'][0], r0.get('error'),
                                                                (r0.get('traceback') or '')[-800:]))
        st['cex_confirmed'] = confirmed
        st['cex_unconfirmed'] = unconfirmed
        per_h.append(st)
        if verbose:
            print(json.dumps(st))

    wall = time.time() - t0
    # ---- report
    printed = set()
    for k in known_hits:
        if k['key'] in printed:
            continue
        printed.add(k['key'])
        print('KNOWN-FINDING: property=%s %s -- %s (replay=%s)' % (pid, k['key'], listed[k['key']].get('what', ''), k['replay']))
    for v in violations:
        print('VIOLATION property=%s replay=%s' % (pid, v['replay']))
        print('  harness=%s claim=%s failed=%s error=%s inputs=%s' % (v['harness'], v['claim'], v['failed'][:4], v['error'],
                                                              json.dumps(v['inputs'])[:600]))
    for s in sorted(set(inconclusive)):
        print('INCONCLUSIVE property=%s obligation=%s' % (pid, s))
    for e in harness_errors:
        print('HARNESS-ERROR property=%s %s' % (pid, e))

    ev = {
        'property_id': pid, 'tier': tier, 'seed': seed, 'level': 'other',
        'coverage': {
            'explanation': getattr(mod, 'EXPLANATION', '') + ' Engine: symx (replay-based dynamic symbolic execution of the '
                           'imported /repo modules on z3; every claim is a validity query under the path condition on a fresh '
                           'solver; counterexamples are replayed on the real code with concrete floats before being reported).',
            'evaluations': total['evaluations'],
            'distinct_nontrivial': len(total['nontrivial']),
            'rule': 'one evaluation = one (path, claim) obligation; non-trivial = the claim was not folded to a constant by '
                    'term simplification and was sent to the solver under a distinct path condition; distinct by '
                    '(harness, decision string, claim name)',
            'obligations': total['obligations'], 'discharged': total['discharged'],
            'paths': total['paths'], 'cut_paths': total['cuts'], 'pruned_by_assumption': total['infeasible'],
            'paths_ending_in_expected_exception': total['expected_exc'], 'paths_with_unexpected_exception': total['errors'],
            'unknown_verdicts': total['unknown'], 'exhaustive': bool(exhaustive_all),
            'solver': 'z3 ' + __import__('z3').get_version_string(),
            'solver_s': round(total['solver_s'], 2), 'branch_feasibility_queries': total['branch_queries'],
            'claim_queries': total['claim_queries'],
            'functions_encoded': [{'function': k, 'sha256_16': v} for k, v in sorted(functions.items())],
            'harnesses': per_h,
            'bounds': {h.name: h.bounds for h in hs},
            'outside_claim': getattr(mod, 'OUTSIDE', []),
            'known_findings_hit': [k['key'] for k in known_hits],
            'samples': samples[:12] or [{'note': 'no path completed'}],
            'checker_cmd': './vcheck %s --tier %s' % (pid, tier),
        },
        'assumptions': list(getattr(mod, 'ASSUMPTIONS', [])) + [x for h in hs for x in h.assumptions],
        'wall_s': round(wall, 2),
        'violations': len(violations),
    }
    if write_evidence:
        with open(os.path.join(HERE, 'evidence', pid + '.json'), 'w') as f:
            json.dump(ev, f, indent=1, default=str)
    print('%s tier=%s harnesses=%d paths=%d obligations=%d discharged=%d unknown=%d cuts=%d violations=%d known=%d '
          'exhaustive=%s solver_s=%.1f wall_s=%.1f' % (
              pid, tier, len(hs), total['paths'], total['obligations'], total['discharged'], total['unknown'], total['cuts'],
              len(violations), len(printed), exhaustive_all, total['solver_s'], wall))
    if violations:
        return EXIT_VIOLATION
    if harness_errors:
        return EXIT_HARNESS
    return EXIT_OK


if __name__ == '__main__':
    sys.exit(main())
