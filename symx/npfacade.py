"""A numpy facade bound as the module global `np` of analysed elfi modules.

Everything is forwarded to the real numpy.  Only the entry points that refuse
object arrays of proxies (or would silently coerce them to C doubles) are
re-stated.  Every override falls through to real numpy in concrete mode.
"""
import math
import builtins
import contextlib

import numpy as _np

from . import core
from .core import SymX, SymInt, SymBool, INF, NAN


def has_sym(x):
    if isinstance(x, (SymX, SymInt, SymBool)):
        return True
    if isinstance(x, _np.ndarray):
        return x.dtype == object
    if isinstance(x, (list, tuple)):
        return any(has_sym(e) for e in x)
    return False


def _sym():
    return core.symbolic_mode()


def const(v):
    """Concrete number as an exact constant term, so that later arithmetic stays exact (1/3 is 1/3)."""
    if isinstance(v, (SymX, SymInt, SymBool)) or core._is_special(v):
        return v
    if isinstance(v, (bool, _np.bool_)) or not isinstance(v, (int, float, _np.integer, _np.floating)):
        return v
    return SymX(core.realval(v))


def objarray(x):
    if isinstance(x, _np.ndarray) and x.dtype == object:
        return x
    if isinstance(x, _np.ndarray):
        return x.astype(object)
    if isinstance(x, (SymX, SymInt, SymBool)):
        a = _np.empty((), dtype=object)
        a[()] = x
        return a
    return _np.array(x, dtype=object)


def _elementwise(fn, x, otype=object):
    if isinstance(x, _np.ndarray):
        out = _np.empty(x.shape, dtype=otype)
        of = out.reshape(-1) if out.ndim else None
        if x.ndim == 0:
            out[()] = fn(x[()])
            return out
        for i, v in enumerate(x.reshape(-1)):
            of[i] = fn(v)
        return out
    if isinstance(x, (list, tuple)):
        return _elementwise(fn, objarray(x), otype)
    return fn(x)


def _isfinite1(v):
    if isinstance(v, (SymX, SymInt, SymBool)):
        return True
    return bool(_np.isfinite(v))


def _isinf1(v):
    if isinstance(v, (SymX, SymInt, SymBool)):
        return False
    return bool(_np.isinf(v))


def _isnan1(v):
    if isinstance(v, (SymX, SymInt, SymBool)):
        return False
    return bool(_np.isnan(v))


def _isneginf1(v):
    if isinstance(v, (SymX, SymInt, SymBool)):
        return False
    return bool(_np.isneginf(v))


def _isposinf1(v):
    if isinstance(v, (SymX, SymInt, SymBool)):
        return False
    return bool(_np.isposinf(v))


class _Sub:
    def __init__(self, real, overrides):
        self._real = real
        self._ov = overrides

    def __getattr__(self, name):
        ov = self.__dict__['_ov']
        if name in ov:
            return ov[name]
        return getattr(self.__dict__['_real'], name)


class NPFacade(_Sub):
    def __init__(self, extra=None, random=None, linalg=None, fft=None):
        ov = dict(_OVERRIDES)
        if extra:
            ov.update(extra)
        if random is not None:
            ov['random'] = random
        if linalg is not None:
            ov['linalg'] = linalg
        else:
            ov['linalg'] = _Sub(_np.linalg, dict(_LINALG))
        if fft is not None:
            ov['fft'] = fft
        super().__init__(_np, ov)


_uninit_counter = [0]


def _dt(dtype):
    """The analysed module's `float`/`int` may be shadowed: map the shadows back when used as dtypes."""
    if dtype is sym_float:
        return float
    if dtype is sym_int:
        return int
    return dtype


def _mk_ctor(name, fill):
    real = getattr(_np, name)

    def ctor(shape, dtype=None, *a, **kw):
        dtype = _dt(dtype)
        if not _sym() or (dtype is not None and dtype not in (float, _np.float64, 'float', 'float64', object)):
            if dtype is None:
                return real(shape, *a, **kw)
            return real(shape, dtype, *a, **kw)
        if isinstance(shape, (SymInt,)):
            shape = shape.__index__()
        elif isinstance(shape, tuple):
            shape = tuple(s.__index__() if isinstance(s, SymInt) else s for s in shape)
        out = _np.empty(shape, dtype=object)
        if fill == 'uninit':
            ctx = core.cur()
            flat = out.reshape(-1)
            for i in range(flat.size):
                flat[i] = ctx.fresh_real('uninit')
        else:
            out.fill(const(fill))
        return out
    ctor.__name__ = name
    return ctor


def _full(shape, fill_value, dtype=None, **kw):
    dtype = _dt(dtype)
    if not _sym():
        return _np.full(shape, fill_value, dtype, **kw)
    out = _np.empty(shape, dtype=object)
    out.fill(const(fill_value))
    return out


def _zeros_like(a, dtype=None, **kw):
    dtype = _dt(dtype)
    if not _sym() or not has_sym(a):
        return _np.zeros_like(a, dtype=dtype, **kw)
    out = _np.empty(_np.shape(a), dtype=object)
    out.fill(const(0))
    return out


def _ones_like(a, dtype=None, **kw):
    dtype = _dt(dtype)
    if not _sym() or not has_sym(a):
        return _np.ones_like(a, dtype=dtype, **kw)
    out = _np.empty(_np.shape(a), dtype=object)
    out.fill(const(1))
    return out


def _empty_like(a, dtype=None, **kw):
    dtype = _dt(dtype)
    if not _sym() or not has_sym(a):
        return _np.empty_like(a, dtype=dtype, **kw)
    return _mk_ctor('empty', 'uninit')(_np.shape(a))


def _conv(name):
    real = getattr(_np, name)

    def f(x, dtype=None, *a, **kw):
        dtype = _dt(dtype)
        if _sym() and has_sym(x) and dtype in (float, _np.float64, 'float', None):
            if isinstance(x, _np.ndarray):
                return x
            return objarray(x)
        if dtype is None:
            return real(x, *a, **kw)
        return real(x, dtype, *a, **kw)
    f.__name__ = name
    return f


def _array(x, dtype=None, *a, **kw):
    dtype = _dt(dtype)
    if _sym() and has_sym(x) and dtype in (float, _np.float64, 'float', None):
        kw.pop('copy', None)
        r = _np.array(x, dtype=object, **kw)
        return r
    if dtype is None:
        return _np.array(x, *a, **kw)
    return _np.array(x, dtype, *a, **kw)


def _pred(fn1, realname):
    real = getattr(_np, realname)

    def f(x, *a, **kw):
        if _sym() and has_sym(x):
            r = _elementwise(fn1, x, bool)
            if isinstance(r, _np.ndarray) and r.ndim == 0:
                return _np.bool_(r[()])
            return r
        return real(x, *a, **kw)
    f.__name__ = realname
    return f


def _isclose(a, b, rtol=1e-05, atol=1e-08, equal_nan=False):
    if _sym() and (has_sym(a) or has_sym(b)):
        # numpy's documented predicate, evaluated over the reals: |a - b| <= atol + rtol * |b|
        def one(x, y):
            if core._is_special(x) or core._is_special(y):
                return bool(_np.isclose(x if core._is_special(x) else 0.0, y if core._is_special(y) else 0.0,
                                        rtol, atol, equal_nan)) if (core._is_special(x) and core._is_special(y)) else False
            return bool(abs(x - y) <= atol + rtol * abs(y))
        A, B = _np.broadcast_arrays(objarray(a), objarray(b))
        out = _np.empty(A.shape, dtype=bool)
        if A.ndim == 0:
            return _np.bool_(one(A[()], B[()]))
        for idx in _np.ndindex(A.shape):
            out[idx] = one(A[idx], B[idx])
        return out
    return _np.isclose(a, b, rtol, atol, equal_nan)


def _allclose(a, b, rtol=1e-05, atol=1e-08, equal_nan=False):
    if _sym() and (has_sym(a) or has_sym(b)):
        return bool(_np.all(_isclose(a, b)))
    return _np.allclose(a, b, rtol, atol, equal_nan)


def _percentile(a, q, axis=None, **kw):
    if _sym() and has_sym(a):
        raise core.Cut('np.percentile on symbolic data is not modelled')
    return _np.percentile(a, q, axis=axis, **kw)


def _cov(m, y=None, rowvar=True, bias=False, ddof=None, fweights=None, aweights=None):
    if not (_sym() and has_sym(m)):
        return _np.cov(m, y, rowvar, bias, ddof, fweights, aweights)
    assert y is None and fweights is None and aweights is None
    X = objarray(m)
    if X.ndim == 1:
        X = X.reshape(1, -1)
    if not rowvar and X.shape[0] != 1:
        X = X.T
    if ddof is None:
        ddof = 0 if bias else 1
    n = X.shape[1]
    avg = X.sum(axis=1) / n
    Xc = X - avg[:, None]
    c = Xc.dot(Xc.T) / (n - ddof)
    return c.squeeze() if c.size == 1 else c


def _gradient(f, *varargs, axis=None, edge_order=1):
    if not (_sym() and (has_sym(f) or any(has_sym(v) for v in varargs))):
        return _np.gradient(f, *varargs, axis=axis, edge_order=edge_order)
    f = objarray(f)
    assert edge_order == 1 and isinstance(axis, int) and len(varargs) == 1
    h = varargs[0]
    fm = _np.moveaxis(f, axis, 0)
    out = _np.empty(fm.shape, dtype=object)
    n = fm.shape[0]
    out[0] = (fm[1] - fm[0]) / h
    out[-1] = (fm[-1] - fm[-2]) / h
    for i in range(1, n - 1):
        out[i] = (fm[i + 1] - fm[i - 1]) / (2 * h)
    return _np.moveaxis(out, 0, axis)


def _unary(name, method):
    real = getattr(_np, name)

    def one(v):
        if isinstance(v, (SymX, SymInt)):
            v = v if isinstance(v, SymX) else v._promote()
            return getattr(v, method)()
        with _np.errstate(all='ignore'):
            return float(real(v))

    def f(x, *a, **kw):
        if _sym() and has_sym(x) and not a and not kw:
            r = _elementwise(one, x, object)
            if isinstance(r, _np.ndarray) and r.ndim == 0:
                return r[()]
            return r
        return real(x, *a, **kw)
    f.__name__ = name
    return f


def _float64(x=0.0):
    if _sym() and has_sym(x):
        return x
    return _np.float64(x)


def _errstate(**kw):
    return _np.errstate(**kw)


_OVERRIDES = {
    'zeros': _mk_ctor('zeros', 0.0),
    'ones': _mk_ctor('ones', 1.0),
    'empty': _mk_ctor('empty', 'uninit'),
    'full': _full,
    'zeros_like': _zeros_like,
    'ones_like': _ones_like,
    'empty_like': _empty_like,
    'asanyarray': _conv('asanyarray'),
    'asarray': _conv('asarray'),
    'array': _array,
    'isfinite': _pred(_isfinite1, 'isfinite'),
    'isinf': _pred(_isinf1, 'isinf'),
    'isnan': _pred(_isnan1, 'isnan'),
    'isneginf': _pred(_isneginf1, 'isneginf'),
    'isposinf': _pred(_isposinf1, 'isposinf'),
    'isclose': _isclose,
    'allclose': _allclose,
    'percentile': _percentile,
    'cov': _cov,
    'gradient': _gradient,
    'float64': _float64,
    'exp': _unary('exp', 'exp'),
    'log': _unary('log', 'log'),
    'sqrt': _unary('sqrt', 'sqrt'),
    'log1p': _unary('log1p', 'log1p'),
}


def _inv(A):
    if not (_sym() and has_sym(A)):
        return _np.linalg.inv(A)
    raise core.Cut('np.linalg.inv on symbolic data: use a harness-level stub')


_LINALG = {'inv': _inv}


# ---- shadows for builtins that force a C type

def _sym_float(x=0.0):
    if isinstance(x, (SymX, SymInt)):
        return x if isinstance(x, SymX) else x._promote()
    if isinstance(x, SymBool):
        return 1.0 if bool(x) else 0.0
    if isinstance(x, _np.ndarray) and x.dtype == object:
        if x.size != 1:
            raise TypeError('only length-1 arrays can be converted to Python scalars')
        if x.ndim > 0 and core.cur() is not None and getattr(core.cur(), 'strict_float', True):
            # numpy >= 2.5 refuses float() of arrays with ndim > 0
            raise TypeError('only 0-dimensional arrays can be converted to Python scalars')
        return _sym_float(x.reshape(-1)[0])
    return builtins.float(x)


def _sym_int(x=0, *a):
    if isinstance(x, SymInt):
        return x
    if isinstance(x, SymX):
        # truncation toward zero
        if bool(core.mkbool(x.t >= 0)):
            return x.__floor__()
        return -((-x).__floor__())
    if isinstance(x, SymBool):
        return 1 if bool(x) else 0
    return builtins.int(x, *a)


class _ShadowMeta(type):
    """Shadows of the builtins `float` / `int`: callable like them, and usable in isinstance() like them."""

    def __call__(cls, *a):
        return cls._conv(*a)

    def __instancecheck__(cls, obj):
        return isinstance(obj, cls._types)


class sym_float(metaclass=_ShadowMeta):
    _types = (builtins.float, SymX)
    _conv = staticmethod(_sym_float)


class sym_int(metaclass=_ShadowMeta):
    _types = (builtins.int, SymInt)
    _conv = staticmethod(_sym_int)


def sym_ceil(x):
    if isinstance(x, SymX):
        return x.__ceil__()
    if isinstance(x, SymInt):
        return x
    return math.ceil(x)


def sym_round(x, n=None):
    if isinstance(x, SymX):
        return x.__round__(n)
    return round(x) if n is None else round(x, n)


def sym_floor(x):
    if isinstance(x, SymX):
        return x.__floor__()
    if isinstance(x, SymInt):
        return x
    return math.floor(x)


class SymMath:
    def __getattr__(self, name):
        return getattr(math, name)

    ceil = staticmethod(sym_ceil)
    floor = staticmethod(sym_floor)

    @staticmethod
    def sqrt(x):
        return x.sqrt() if isinstance(x, SymX) else math.sqrt(x)

    @staticmethod
    def exp(x):
        return x.exp() if isinstance(x, SymX) else math.exp(x)

    @staticmethod
    def log(x, *a):
        return x.log() if isinstance(x, SymX) else math.log(x, *a)

    @staticmethod
    def isclose(a, b, rel_tol=1e-09, abs_tol=0.0):
        if isinstance(a, (SymX, SymInt)) or isinstance(b, (SymX, SymInt)):
            # math.isclose over the reals: |a-b| <= max(rel_tol * max(|a|, |b|), abs_tol)
            d = abs(a - b)
            if bool(d <= abs_tol):
                return True
            return bool(d <= rel_tol * abs(a)) or bool(d <= rel_tol * abs(b))
        return math.isclose(a, b, rel_tol=rel_tol, abs_tol=abs_tol)

    @staticmethod
    def isfinite(x):
        return _isfinite1(x)

    @staticmethod
    def isnan(x):
        return _isnan1(x)

    @staticmethod
    def isinf(x):
        return _isinf1(x)


_MISSING = object()


@contextlib.contextmanager
def patched(bindings):
    """bindings: list of (module_or_object, {name: value}).  Restored on exit."""
    saved = []
    try:
        for obj, names in bindings:
            d = obj.__dict__ if hasattr(obj, '__dict__') else None
            for k, v in names.items():
                old = d.get(k, _MISSING) if d is not None else getattr(obj, k, _MISSING)
                saved.append((obj, k, old))
                setattr(obj, k, v)
        yield
    finally:
        for obj, k, old in reversed(saved):
            if old is _MISSING:
                try:
                    delattr(obj, k)
                except AttributeError:
                    pass
            else:
                setattr(obj, k, old)


def std_bindings(modules, np_facade=None, shadow_builtins=True, extra=None):
    """Usual rebinding for an analysed module: np facade + float/int/ceil shadows (symbolic mode only)."""
    if not _sym():
        return []
    fac = np_facade or NPFacade()
    out = []
    for m in modules:
        names = {}
        if hasattr(m, 'np'):
            names['np'] = fac
        if shadow_builtins:
            names['float'] = sym_float
            names['int'] = sym_int
            names['round'] = sym_round
            if 'ceil' in m.__dict__:
                names['ceil'] = sym_ceil
            if 'math' in m.__dict__:
                names['math'] = SymMath()
        if extra:
            names.update(extra)
        out.append((m, names))
    return out
