"""Replay-based DFS over the decision tree of a harness, split over processes."""
import os
import sys
import time
import json
import hashlib
import inspect
import traceback
import importlib
import multiprocessing as mp
from fractions import Fraction

import z3

from . import core
from .core import SymCtx, ConcreteCtx, Cut, Infeasible, Dec


class H:
    """A harness: fn(ctx, **params) executed once per path."""

    def __init__(self, name, fn, params=None, tiers=('quick', 'thorough'), finding=None,
                 bounds='', assumptions=(), max_paths=200000, expected_exc=(),
                 witness=True, note='', rlimit_claim=None, chunk_s=None, exact=False, path_timeout=120,
                 finding_claims=None, finding_errors=None):
        self.finding_claims = finding_claims    # substrings of claim names that constitute the listed finding
        self.finding_errors = finding_errors    # exception class names that constitute it (for no_unexpected_exception)
        self.path_timeout = path_timeout
        self.name = name
        self.fn = fn
        self.params = dict(params or {})
        self.tiers = tiers
        self.finding = finding          # key of a known-finding region this harness probes
        self.bounds = bounds
        self.assumptions = list(assumptions)
        self.max_paths = max_paths
        self.expected_exc = tuple(expected_exc)
        self.witness = witness
        self.note = note
        self.rlimit_claim = rlimit_claim
        self.chunk_s = chunk_s
        self.exact = exact


def jsonable(v):
    if isinstance(v, Fraction):
        return float(v) if v.denominator != 1 else int(v)
    if isinstance(v, dict):
        return {str(k): jsonable(x) for k, x in v.items()}
    if isinstance(v, (list, tuple)):
        return [jsonable(x) for x in v]
    if isinstance(v, float):
        if v != v:
            return 'nan'
        if v in (core.INF, -core.INF):
            return 'inf' if v > 0 else '-inf'
        return v
    if isinstance(v, (int, str, bool)) or v is None:
        return v
    return repr(v)[:200]


def exact_jsonable(v):
    """Model values for replay files: rationals as 'p/q' strings (exact)."""
    if isinstance(v, Fraction):
        return {'q': [v.numerator, v.denominator]}
    if isinstance(v, dict):
        return {str(k): exact_jsonable(x) for k, x in v.items()}
    if isinstance(v, (list, tuple)):
        return [exact_jsonable(x) for x in v]
    if isinstance(v, float):
        return {'f': repr(v)}
    return v


def exact_unjson(v):
    if isinstance(v, dict):
        if set(v.keys()) == {'q'}:
            return Fraction(v['q'][0], v['q'][1])
        if set(v.keys()) == {'f'}:
            return float(v['f'])
        return {k: exact_unjson(x) for k, x in v.items()}
    if isinstance(v, list):
        return [exact_unjson(x) for x in v]
    return v


# --------------------------------------------------------------------------

_TRACED = {}


def _profile(frame, event, arg):
    if event == 'call':
        co = frame.f_code
        fn = co.co_filename
        if '/elfi/' in fn and 'site-packages' not in fn:
            _TRACED[(fn, co.co_qualname if hasattr(co, 'co_qualname') else co.co_name, co.co_firstlineno)] = co


def _traced_functions():
    out = []
    for (fn, qn, ln), co in sorted(_TRACED.items()):
        try:
            src = ''.join(inspect.getsourcelines(co)[0])
        except Exception:
            src = ''
        if qn in ('<module>',) or qn.endswith('<lambda>') or qn.endswith('<listcomp>') or qn.endswith('<genexpr>'):
            continue
        mod = fn.split('/elfi/', 1)[1][:-3].replace('/', '.')
        out.append({'function': 'elfi.%s:%s' % (mod, qn), 'sha256': hashlib.sha256(src.encode()).hexdigest()[:16]})
    return out


class PathTimeout(BaseException):
    pass


def _on_alarm(signum, frame):
    raise PathTimeout()


class watchdog:
    """Wall-clock guard for one execution of a harness (a mutated loop may never terminate)."""

    def __init__(self, seconds):
        self.seconds = seconds

    def __enter__(self):
        import signal
        self.old = signal.signal(signal.SIGALRM, _on_alarm)
        signal.setitimer(signal.ITIMER_REAL, self.seconds)

    def __exit__(self, *a):
        import signal
        signal.setitimer(signal.ITIMER_REAL, 0)
        signal.signal(signal.SIGALRM, self.old)
        return False


def run_concrete(h, values, exact=False):
    """Run harness h on concrete values.  Returns dict(status, claims, error, outputs)."""
    ctx = ConcreteCtx(values, exact=exact)
    core.set_ctx(ctx)
    rec = {'status': 'ok', 'error': None}
    try:
        with watchdog(h.path_timeout):
            h.fn(ctx, **h.params)
    except PathTimeout:
        rec['status'] = 'timeout'
        rec['error'] = 'no result after %ss' % h.path_timeout
    except Cut as e:
        rec['status'] = 'cut'
        rec['error'] = str(e)
    except Infeasible:
        rec['status'] = 'infeasible'
    except h.expected_exc as e:
        rec['status'] = 'expected_exc'
        rec['error'] = '%s: %s' % (type(e).__name__, e)
    except Exception as e:
        rec['status'] = 'error'
        rec['error'] = '%s: %s' % (type(e).__name__, e)
        rec['traceback'] = traceback.format_exc()[-2000:]
    finally:
        core.set_ctx(None)
    rec['claims'] = [(n, s) for n, s, _ in ctx.claims]
    rec['outputs'] = ctx.outputs
    rec['notes'] = ctx.notes
    rec['missing'] = ctx.missing
    return rec


def run_path(ctx, h, prefix, trace_funcs=False):
    ctx.reset_path(prefix)
    core.set_ctx(ctx)
    rec = {'status': 'ok', 'error': None}
    if trace_funcs:
        sys.setprofile(_profile)
    try:
        with watchdog(h.path_timeout):
            h.fn(ctx, **h.params)
    except PathTimeout:
        rec['status'] = 'timeout'
        rec['error'] = 'path not finished after %ss' % h.path_timeout
    except Cut as e:
        rec['status'] = 'cut'
        rec['error'] = str(e)
    except Infeasible:
        rec['status'] = 'infeasible'
    except h.expected_exc as e:
        rec['status'] = 'expected_exc'
        rec['error'] = '%s: %s' % (type(e).__name__, e)
    except RecursionError as e:
        rec['status'] = 'error'
        rec['error'] = 'RecursionError'
    except Exception as e:
        rec['status'] = 'error'
        rec['error'] = '%s: %s' % (type(e).__name__, str(e)[:300])
        rec['traceback'] = traceback.format_exc()[-3000:]
    finally:
        if trace_funcs:
            sys.setprofile(None)
        core.set_ctx(None)
    rec['claims'] = [(n, s, (round(dt, 4) if dt else dt)) for n, s, dt in ctx.claims]
    rec['depth'] = len(ctx.trace)
    rec['unknown_branch'] = ctx.unknown_branch
    rec['notes'] = list(ctx.notes)
    if rec['status'] == 'error':
        # an unexpected exception is itself a counterexample candidate: any model of the pc
        proxy_limit = any(t in (rec['error'] or '') for t in ("'SymX'", "'SymInt'", "'SymBool'", 'symbolic real'))
        try:
            pm = ctx.path_model(noninteger=True) if proxy_limit else None     # generic-position values: the concrete twin decides
            if pm is not None:
                rec['cex'] = ('no_unexpected_exception', pm[0])
            else:
                ctx._ensure_model()
                rec['cex'] = ('no_unexpected_exception', ctx._extract(ctx.model))
        except BaseException:
            rec['cex'] = ('no_unexpected_exception', {})
    elif ctx.cex is not None:
        rec['cex'] = ctx.cex
    return rec


def _load_harness(modname, hname):
    mod = importlib.import_module(modname)
    for h in mod.HARNESSES:
        if h.name == hname:
            return h
    raise KeyError(hname)


def explore_chunk(task):
    """Worker: DFS below `prefix` until the time/path budget is used; return leftovers."""
    (modname, hname, prefix, budget_s, max_paths, seed, want_funcs, n_witness) = task
    try:
        return _explore_chunk(modname, hname, prefix, budget_s, max_paths, seed, want_funcs, n_witness)
    except BaseException as e:  # engine failure: report, never swallow
        return {'engine_error': '%s: %s\n%s' % (type(e).__name__, e, traceback.format_exc()[-3000:]),
                'records': [], 'leftovers': [], 'stats': {}}


def _explore_chunk(modname, hname, prefix, budget_s, max_paths, seed, want_funcs, n_witness):
    import logging
    logging.disable(logging.WARNING)      # logging / progress output of the analysed code is not a subject
    h = _load_harness(modname, hname)
    kw = {}
    if h.rlimit_claim:
        kw['rlimit_claim'] = h.rlimit_claim
    ctx = SymCtx(seed=seed, **kw)
    fixed = [tuple(p) for p in prefix]
    stack = []
    records = []
    witnesses = []
    t_end = time.time() + budget_s
    first = True
    n = 0
    leftovers = []
    while True:
        full = fixed + [(e.d, e.payload) for e in stack]
        rec = run_path(ctx, h, full, trace_funcs=(want_funcs and first))
        first = False
        n += 1
        new = ctx.trace[len(full):]
        stack.extend(new)
        rec['decisions'] = ''.join('1' if d else '0' for d, _ in full) + ''.join('1' if e.d else '0' for e in new)
        # witness / shadow run on the model of this path
        if h.witness and len(witnesses) < n_witness and rec['status'] == 'ok' and rec['claims'] \
                and all(s in ('unsat', 'folded') for _, s, _ in rec['claims']):
            pm = ctx.path_model()
            if pm is None:
                witnesses.append({'decisions': rec['decisions'], 'ok': None, 'status': 'no-model', 'n_claims': 0, 'failed': [],
                                  'error': 'solver produced no model of the path condition within its limits', 'inputs': {}})
            if pm is not None:
                vals, _m = pm
                crec = run_concrete(h, vals, exact=h.exact)
                ok = crec['status'] == 'ok' and crec['claims'] and all(s == 'ok' for _, s in crec['claims'])
                if getattr(h, 'float_region', False) and not ok and crec['status'] == 'ok' and not rec.get('cex'):
                    # region harness: its inputs are confined, by assumption, to a region where doubles behave differently
                    # from reals; there the concrete twin's verdict on the path model IS the check (replayed like any
                    # other counterexample before it is reported)
                    failed = [c for c, s_ in crec['claims'] if s_ != 'ok']
                    rec['cex'] = (failed[0], vals)
                    rec['notes'] = list(rec.get('notes', [])) + ['float-region twin: claim holds over the reals, fails in doubles']
                witnesses.append({'decisions': rec['decisions'], 'ok': bool(ok), 'status': crec['status'],
                                  'n_claims': len(crec['claims']),
                                  'failed': [c for c, s in crec['claims'] if s != 'ok'],
                                  'error': crec.get('error'),
                                  'inputs': jsonable({k: v for k, v in vals.items() if k != '#uf'})})
        rec.pop('traceback', None) if rec['status'] != 'error' else None
        records.append(rec)
        # backtrack
        while stack and not stack[-1].alt:
            stack.pop()
        if not stack:
            break
        if time.time() > t_end or n >= max_paths:
            for i, e in enumerate(stack):
                if e.alt:
                    leftovers.append(fixed + [(x.d, x.payload) for x in stack[:i]] + [(not e.d, e.payload)])
            break
        e = stack[-1]
        e.d = not e.d
        e.alt = False
    stats = {'paths': n, 'branch_queries': ctx.n_branch_queries, 'claim_queries': ctx.n_claim_queries,
             'solver_s': ctx.solver_s}
    out = {'records': records, 'leftovers': leftovers, 'stats': stats, 'witnesses': witnesses}
    if want_funcs:
        out['functions'] = _traced_functions()
    return out


def explore_many(modname, hs, seed=0, workers=None, chunk_s=6.0, n_witness=3, wall_limit=None):
    """Master: exhaust the decision trees of all harnesses hs on one process pool.  Returns {name: aggregate}."""
    workers = workers or min(16, os.cpu_count() or 1)
    t0 = time.time()
    aggs = {}
    byname = {h.name: h for h in hs}
    for h in hs:
        aggs[h.name] = {'paths': 0, 'records': [], 'stats': {'branch_queries': 0, 'claim_queries': 0, 'solver_s': 0.0},
                        'witnesses': [], 'functions': [], 'exhaustive': False, 'engine_errors': [],
                        'unexplored_prefixes': 0, 'stopped': False, 't_first': None, 't_last': None}
    ctxmp = mp.get_context('fork')
    inflight = []   # (async result, harness name)
    queue = []      # (harness name, prefix)
    with ctxmp.Pool(workers, maxtasksperchild=50) as pool:
        def submit(hname, prefix, budget, want_funcs):
            h = byname[hname]
            t = (modname, hname, prefix, budget, h.max_paths, seed, want_funcs, n_witness)
            inflight.append((pool.apply_async(explore_chunk, (t,)), hname))
            if aggs[hname]['t_first'] is None:
                aggs[hname]['t_first'] = time.time()
        initial = [h.name for h in hs]
        while inflight or queue or initial:
            while initial and len(inflight) < workers * 2:
                submit(initial.pop(0), [], 1.0, True)
            while queue and len(inflight) < workers * 2:
                hname, prefix = queue.pop()
                h = byname[hname]
                cs = h.chunk_s or chunk_s
                b = cs if len(queue) + len(inflight) >= workers else max(0.5, cs / 6)
                submit(hname, prefix, b, False)
            done = [x for x in inflight if x[0].ready()]
            if not done:
                time.sleep(0.005)
                continue
            for x in done:
                inflight.remove(x)
                res = x[0].get()
                agg = aggs[x[1]]
                h = byname[x[1]]
                agg['t_last'] = time.time()
                if res.get('engine_error'):
                    agg['engine_errors'].append(res['engine_error'])
                    continue
                agg['paths'] += res['stats']['paths']
                for k in ('branch_queries', 'claim_queries', 'solver_s'):
                    agg['stats'][k] += res['stats'][k]
                agg['records'].extend(res['records'])
                agg['witnesses'].extend(res.get('witnesses', []))
                if res.get('functions'):
                    agg['functions'] = res['functions']
                if agg['paths'] >= h.max_paths or (wall_limit and time.time() - t0 > wall_limit):
                    agg['stopped'] = True
                agg['n_cex'] = agg.get('n_cex', 0) + sum(1 for r in res['records'] if r.get('cex'))
                if agg['n_cex'] >= 12:
                    agg['stopped'] = True     # fail fast: enough counterexample candidates to replay
                    agg['stopped_on_cex'] = True
                if agg['stopped']:
                    agg['unexplored_prefixes'] += len(res['leftovers'])
                else:
                    queue.extend((x[1], p) for p in res['leftovers'])
            # drop queued work of stopped harnesses
            if any(a['stopped'] for a in aggs.values()):
                keep = []
                for hname, prefix in queue:
                    if aggs[hname]['stopped']:
                        aggs[hname]['unexplored_prefixes'] += 1
                    else:
                        keep.append((hname, prefix))
                queue = keep
    for name, agg in aggs.items():
        agg['exhaustive'] = not agg['engine_errors'] and agg['unexplored_prefixes'] == 0
        agg['wall_s'] = (agg['t_last'] or t0) - (agg['t_first'] or t0)
    return aggs


def explore(modname, h, **kw):
    return explore_many(modname, [h], **kw)[h.name]
