"""Adversarial IEEE-double inputs from a bit-precise solver query (QF_FP).

The symbolic engine treats floats as reals, so effects of rounding are outside its claims.  For a few small kernels whose
correctness depends on a float guard, a QF_FP query over the numpy operations that feed the kernel (sequential sums,
divisions, round-to-nearest-even) asks the solver for doubles with a stated rounding outcome; the real function is then run on
exactly those doubles and the property's definition is evaluated in exact rationals.  This is a witness search (the solver
finds the rare inputs), not a universal claim: an `unsat`/`unknown`/timeout answer proves nothing and is reported as such.
"""
import os
import re
import shutil
import struct
import subprocess
import tempfile

F64 = '(_ FloatingPoint 11 53)'


def const(v):
    return '((_ to_fp 11 53) RNE %s)' % ('(- %r)' % (-float(v)) if v < 0 else repr(float(v)))


def seq_sum(terms):
    acc = terms[0]
    for t in terms[1:]:
        acc = '(fp.add RNE %s %s)' % (acc, t)
    return acc


def solve(decls, asserts, timeout_s=120):
    """decls: names of Float64 constants.  Returns ('sat', {name: float}) | ('unsat', None) | ('unknown', reason)."""
    lines = ['(set-logic QF_FP)', '(set-option :produce-models true)']
    lines += ['(declare-const %s %s)' % (d, F64) for d in decls]
    lines += ['(assert %s)' % a for a in asserts]
    lines += ['(check-sat)', '(get-model)']
    text = '\n'.join(lines) + '\n'
    fd, fn = tempfile.mkstemp(suffix='.smt2', prefix='symx_fp_')
    try:
        with os.fdopen(fd, 'w') as f:
            f.write(text)
        tried = []
        for solver in ([shutil.which('cvc5')], [shutil.which('z3')]):
            if not solver[0]:
                continue
            try:
                r = subprocess.run(solver + [fn], capture_output=True, text=True, timeout=timeout_s)
            except subprocess.TimeoutExpired:
                tried.append('%s: timeout' % os.path.basename(solver[0]))
                continue
            out = r.stdout
            if '(error' in out or '(error' in r.stderr:
                tried.append('%s: error' % os.path.basename(solver[0]))
                continue
            first = out.strip().split('\n', 1)[0].strip()
            if first == 'unsat':
                return 'unsat', None
            if first == 'sat':
                vals = {}
                for m in re.finditer(r'\(define-fun\s+(\S+)\s+\(\)\s+\(_ FloatingPoint 11 53\)\s+\(fp #b([01]) #b([01]{11}) #b([01]{52})\)',
                                     out):
                    bits = int(m.group(2) + m.group(3) + m.group(4), 2)
                    vals[m.group(1)] = struct.unpack('>d', struct.pack('>Q', bits))[0]
                if all(d in vals for d in decls):
                    return 'sat', vals
                tried.append('%s: model not parsed' % os.path.basename(solver[0]))
                continue
            tried.append('%s: %s' % (os.path.basename(solver[0]), first[:40]))
        return 'unknown', '; '.join(tried) or 'no solver binary'
    finally:
        os.unlink(fn)
